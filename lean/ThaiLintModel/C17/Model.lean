/-
C17 — Rust safety linters (unwrap-abuse, clone-abuse, blocking-async).  Executable model (no Mathlib,
no proofs).  A call site is described by its chain of enclosing syntactic frames (outermost first), as
the analyzers see it when they walk `node.parent` upwards (`src/analyzers/rust_context.py`,
`*/rust_analyzer.py`), and by what kind of call it is.
-/
import ThaiLintModel.Gen.Rust
namespace ThaiLintModel.C17

abbrev Str := List Char

def containsSub : Str → Str → Bool
  | [], p => p.isEmpty
  | c :: s, p => p.isPrefixOf (c :: s) || containsSub s p

/-- an attribute as written between `#[` and `]` -/
abbrev Attr := Str

inductive CallStyle where | ident | scoped | method | other
  deriving DecidableEq, Repr

inductive Frame where
  /-- `fn`: `seen` = the attribute_items that directly precede the item (a comment in between hides the
      ones before it: `hidden`) -/
  | fn (seen hidden : List Attr) (isAsync : Bool)
  | mod (seen hidden : List Attr)
  | loop                      -- for / while / loop expression
  /-- a call expression enclosing the site (the site sits in its arguments): how the callee is written
      (`f(…)`, `a::b::f(…)`, `x.f(…)`, anything else) and its final name -/
  | call (style : CallStyle) (name : Str)
  | closure | block
  | letDecl                   -- `let x = …;`
  | macroArgs                 -- the token tree of a macro invocation (`println!(…)`, `assert_eq!(…)`, `vec![…]`)
  deriving Repr

/-! ### which attributes mark test code (`_attribute_marks_test`, repaired code) -/

def isWordChar (c : Char) : Bool := c.isAlphanum || c == '_'

/-- `_STRING_LITERAL.sub('""', text)`: string literals (with backslash escapes) lose their content;
    an unterminated literal is left as it is -/
def closesString : Str → Bool
  | [] => false
  | '\\' :: _ :: r => closesString r
  | '"' :: _ => true
  | _ :: r => closesString r
def strip : Bool → Str → Str
  | _, [] => []
  | false, '"' :: r => if closesString r then '"' :: strip true r else '"' :: strip false r
  | false, c :: r => c :: strip false r
  | true, '\\' :: _ :: r => strip true r
  | true, '"' :: r => '"' :: strip false r
  | true, _ :: r => strip true r
def stripStrings (s : Str) : Str := strip false s

/-- maximal runs of word characters, single punctuation characters; white space dropped -/
def tokens : Str → Str → List Str
  | [], cur => if cur.isEmpty then [] else [cur.reverse]
  | c :: r, cur =>
    if isWordChar c then tokens r (c :: cur)
    else
      let flush := if cur.isEmpty then [] else [cur.reverse]
      if c.isWhitespace then flush ++ tokens r [] else flush ++ [c] :: tokens r []

def hasSeq (pat : List Str) : List Str → Bool
  | [] => pat.isEmpty
  | t :: r => pat.isPrefixOf (t :: r) || hasSeq pat r

def testMarkers : List Str := ["test".toList, "rstest".toList, "test_case".toList]
def negatedTest : List Str := ["not".toList, "(".toList, "test".toList, ")".toList]

def marksTest (a : Attr) : Bool :=
  let ts := tokens (stripStrings a) []
  !hasSeq negatedTest ts && ts.any (fun t => testMarkers.contains t)

/-- `is_inside_test`.  `repaired = true` is the current code: attributes keep belonging to their item
    across comments, a function is a test when one of its attributes *is* a test marker, a module when one
    contains `cfg(test)`; `repaired = false` is the code before the repair (findings F17a, F17b): only
    attributes not separated by a comment, and any attribute whose text contains "test". -/
def isInsideTestG (repaired : Bool) (frames : List Frame) : Bool :=
  frames.any fun fr => match fr with
    | .fn seen hidden _ =>
      if repaired then (seen ++ hidden).any marksTest else seen.any (fun a => containsSub a "test".toList)
    | .mod seen hidden =>
      (if repaired then seen ++ hidden else seen).any (fun a => containsSub a "cfg(test)".toList)
    | _ => false
def isInsideTest (frames : List Frame) : Bool := isInsideTestG true frames

/-- the documented meaning of test code: an enclosing function carries a `#[test]`-like attribute (its
    path ends in `test`, arguments allowed) or an enclosing module carries `#[cfg(test)]` — whatever
    comments sit between the attribute and the item -/
def isTestAttr (a : Attr) : Bool :=
  let head := a.takeWhile (· != '(')
  head == "test".toList || "::test".toList.isSuffixOf head
def isCfgTest (a : Attr) : Bool := a == "cfg(test)".toList
def specInsideTest (frames : List Frame) : Bool :=
  frames.any fun fr => match fr with
    | .fn seen hidden _ => (seen ++ hidden).any isTestAttr
    | .mod seen hidden => (seen ++ hidden).any isCfgTest
    | _ => false

def insideLoop (frames : List Frame) : Bool := frames.any fun fr => match fr with | .loop => true | _ => false
def insideAsyncFn (frames : List Frame) : Bool := frames.any fun fr => match fr with | .fn _ _ a => a | _ => false
def wrapperNames : List Str := Gen.Rust.asyncWrapperFunctions.map String.toList
/-- `_is_inside_blocking_wrapper`; `repaired = false` is the code before the repair (finding F17d), which
    did not recognise the method form `handle.spawn_blocking(…)` -/
def insideWrapperG (repaired : Bool) (frames : List Frame) : Bool :=
  frames.any fun fr => match fr with
    | .call .ident n => wrapperNames.contains n
    | .call .scoped n => wrapperNames.contains n
    | .call .method n => repaired && wrapperNames.contains n
    | _ => false
def insideWrapper (frames : List Frame) : Bool := insideWrapperG true frames
/-- the property's reading: some enclosing call is to a spawn_blocking / block_in_place / asyncify
    function, however it is spelled -/
def specInsideWrapper (frames : List Frame) : Bool :=
  frames.any fun fr => match fr with
    | .call .other _ => false
    | .call _ n => wrapperNames.contains n
    | _ => false

/-- `_find_parent_let_declaration`: walking up from the call, a `let_declaration` is met before any
    block or function -/
def boundByLet : List Frame → Bool
  | [] => false
  | frames =>
    let rec up : List Frame → Bool
      | [] => false
      | .letDecl :: _ => true
      | .block :: _ => false
      | .fn _ _ _ :: _ => false
      | _ :: r => up r
    up frames.reverse

/-! ## unwrap-abuse -/
inductive UMethod where | unwrap | expect | other
  deriving DecidableEq, Repr

structure UCfg where
  allowInTests : Bool
  allowExpect : Bool

def unwrapReported (c : UCfg) (frames : List Frame) (m : UMethod) : Bool :=
  match m with
  | .other => false
  | .unwrap => !(isInsideTest frames && c.allowInTests)
  | .expect => !(isInsideTest frames && c.allowInTests) && !c.allowExpect

def unwrapSpec (c : UCfg) (frames : List Frame) (m : UMethod) : Bool :=
  match m with
  | .other => false
  | .unwrap => !(specInsideTest frames && c.allowInTests)
  | .expect => !c.allowExpect && !(specInsideTest frames && c.allowInTests)

/-! ## clone-abuse -/
inductive ClonePattern where | chain | inLoop | unnecessary
  deriving DecidableEq, Repr

structure CloneSite where
  chained : Bool            -- the receiver is itself a `.clone()` call
  simpleReceiver : Bool     -- the receiver is a plain identifier
  usedAfter : Bool          -- that identifier occurs in a later statement of the same block
  deriving Repr

/-- `_classify_clone`: chain, then loop, then unnecessary -/
def classifyClone (frames : List Frame) (s : CloneSite) : Option ClonePattern :=
  if s.chained then some .chain
  else if insideLoop frames then some .inLoop
  else if boundByLet frames && s.simpleReceiver && !s.usedAfter then some .unnecessary
  else none

structure CCfg where
  allowInTests : Bool
  detectLoop : Bool
  detectChain : Bool
  detectUnnecessary : Bool

def cloneEnabled (c : CCfg) : ClonePattern → Bool
  | .chain => c.detectChain | .inLoop => c.detectLoop | .unnecessary => c.detectUnnecessary

def cloneReported (c : CCfg) (frames : List Frame) (s : CloneSite) : Option ClonePattern :=
  match classifyClone frames s with
  | some p => if (isInsideTest frames && c.allowInTests) || !cloneEnabled c p then none else some p
  | none => none

def cloneSpec (c : CCfg) (frames : List Frame) (s : CloneSite) : Option ClonePattern :=
  match classifyClone frames s with
  | some p => if (specInsideTest frames && c.allowInTests) || !cloneEnabled c p then none else some p
  | none => none

/-! ## blocking-async -/
inductive BlockPattern where | fs | sleep | net
  deriving DecidableEq, Repr

def fsFunctions : List Str := Gen.Rust.blockingFsFunctions.map String.toList
def netTypes : List Str := Gen.Rust.blockingNetTypes.map String.toList

/-- `_classify_blocking_pattern` on the `::`-separated parts of the call path -/
def classifyPath (parts : List Str) : Option BlockPattern :=
  let isFs := (match parts with
    | a :: b :: c :: _ => (a == "std".toList && b == "fs".toList && fsFunctions.contains c) || (a == "fs".toList && fsFunctions.contains b)
    | [a, b] => a == "fs".toList && fsFunctions.contains b
    | _ => false)
  let isSleep := (match parts with
    | a :: b :: c :: _ => (a == "std".toList && b == "thread".toList && c == "sleep".toList) || (a == "thread".toList && b == "sleep".toList)
    | [a, b] => a == "thread".toList && b == "sleep".toList
    | _ => false)
  let isNet := (match parts with
    | a :: b :: c :: _ => (a == "std".toList && b == "net".toList && netTypes.contains c) || (a == "net".toList && netTypes.contains b) || netTypes.contains a
    | [a, b] => (a == "net".toList && netTypes.contains b) || netTypes.contains a
    | _ => false)
  if isFs then some .fs else if isSleep then some .sleep else if isNet then some .net else none

structure BCfg where
  allowInTests : Bool
  detectFs : Bool
  detectSleep : Bool
  detectNet : Bool
  /-- names the file imports from crates other than std (`use tokio::fs;` gives `fs`): a short path that
      starts with one of them is not a std call (`_names_imported_from_other_crates`) -/
  shadowed : List Str := []

def blockEnabled (c : BCfg) : BlockPattern → Bool
  | .fs => c.detectFs | .sleep => c.detectSleep | .net => c.detectNet

def isShadowed (shadowed : List Str) (parts : List Str) : Bool :=
  match parts with
  | a :: _ => shadowed.contains a
  | [] => false

def blockingReported (c : BCfg) (frames : List Frame) (parts : List Str) : Option BlockPattern :=
  if !insideAsyncFn frames || isShadowed c.shadowed parts then none else
  match classifyPath parts with
  | some p => if insideWrapper frames || (isInsideTest frames && c.allowInTests) || !blockEnabled c p then none else some p
  | none => none

def blockingSpec (c : BCfg) (frames : List Frame) (parts : List Str) : Option BlockPattern :=
  if !insideAsyncFn frames || isShadowed c.shadowed parts then none else
  match classifyPath parts with
  | some p => if specInsideWrapper frames || (specInsideTest frames && c.allowInTests) || !blockEnabled c p then none else some p
  | none => none

/-! ## Whole files: the three recursive scans

A file is a tree; a node may open a frame for its descendants, may be a call site, or both (a wrapper
call is a frame *and* may itself be a path call).  The scans (`_find_unwrap_recursive`,
`_find_clone_recursive`, `_scan_for_blocking_calls`) visit every node once, top-down, children in order. -/

inductive Site where
  | unwrap (m : UMethod)
  | clone (s : CloneSite)
  | path (parts : List Str)
  deriving Repr

mutual
inductive Node where
  | mk (id : Nat) (frame : Option Frame) (site : Option Site) (children : NodeList)
inductive NodeList where
  | nil
  | cons (n : Node) (rest : NodeList)
end

structure Cfg where
  u : UCfg
  c : CCfg
  b : BCfg

inductive Rule where
  | unwrapCall | expectCall | cloneChain | cloneInLoop | unnecessaryClone | fsInAsync | sleepInAsync | netInAsync
  deriving DecidableEq, Repr

def ruleOfClone : ClonePattern → Rule
  | .chain => .cloneChain | .inLoop => .cloneInLoop | .unnecessary => .unnecessaryClone
def ruleOfBlock : BlockPattern → Rule
  | .fs => .fsInAsync | .sleep => .sleepInAsync | .net => .netInAsync

/-- what the implementation reports for one site under its ancestors' frames -/
def verdict (cfg : Cfg) (anc : List Frame) : Site → Option Rule
  | .unwrap m => if unwrapReported cfg.u anc m then some (if m == .expect then .expectCall else .unwrapCall) else none
  | .clone s => (cloneReported cfg.c anc s).map ruleOfClone
  | .path parts => (blockingReported cfg.b anc parts).map ruleOfBlock

/-- what the property asks for -/
def specVerdict (cfg : Cfg) (anc : List Frame) : Site → Option Rule
  | .unwrap m => if unwrapSpec cfg.u anc m then some (if m == .expect then .expectCall else .unwrapCall) else none
  | .clone s => (cloneSpec cfg.c anc s).map ruleOfClone
  | .path parts => (blockingSpec cfg.b anc parts).map ruleOfBlock

def pushFrame (anc : List Frame) : Option Frame → List Frame
  | some f => anc ++ [f]
  | none => anc

/-- tree-sitter leaves macro arguments as raw token trees: nothing inside them is a `call_expression`, so
    the scans never see the calls written there (finding F17c) -/
def hidesKids : Option Frame → Bool
  | some .macroArgs => true
  | _ => false

mutual
/-- the scan: reports in visiting order, as (node id, rule) -/
def scan (cfg : Cfg) (anc : List Frame) : Node → List (Nat × Rule)
  | .mk id fr site ch =>
    (match site.bind (verdict cfg anc) with | some r => [(id, r)] | none => []) ++
      (if hidesKids fr then [] else scanList cfg (pushFrame anc fr) ch)
def scanList (cfg : Cfg) (anc : List Frame) : NodeList → List (Nat × Rule)
  | .nil => []
  | .cons n rest => scan cfg anc n ++ scanList cfg anc rest
end

mutual
/-- every call site the scans can see, with its enclosing frames -/
def sites (anc : List Frame) : Node → List (Nat × List Frame × Site)
  | .mk id fr site ch =>
    (match site with | some s => [(id, anc, s)] | none => []) ++ (if hidesKids fr then [] else sitesList (pushFrame anc fr) ch)
def sitesList (anc : List Frame) : NodeList → List (Nat × List Frame × Site)
  | .nil => []
  | .cons n rest => sites anc n ++ sitesList anc rest
end

mutual
/-- every call site written in the file, macro arguments included -/
def allSites (anc : List Frame) : Node → List (Nat × List Frame × Site)
  | .mk id fr site ch =>
    (match site with | some s => [(id, anc, s)] | none => []) ++ allSitesList (pushFrame anc fr) ch
def allSitesList (anc : List Frame) : NodeList → List (Nat × List Frame × Site)
  | .nil => []
  | .cons n rest => allSites anc n ++ allSitesList anc rest
end

mutual
def macroFree : Node → Bool
  | .mk _ fr _ ch => !hidesKids fr && macroFreeList ch
def macroFreeList : NodeList → Bool
  | .nil => true
  | .cons n rest => macroFree n && macroFreeList rest
end

end ThaiLintModel.C17
