import ThaiLintModel.C17.Model
namespace ThaiLintModel.C17

/-! ## Test context -/

/-- the attributes of every enclosing item are *plain*: the analyzer's reading of each (token scan) and
    the documented one (`#[test]`-like path / exactly `#[cfg(test)]`) coincide -/
def FramePlain : Frame → Prop
  | .fn seen hidden _ => ∀ a ∈ seen ++ hidden, marksTest a = isTestAttr a
  | .mod seen hidden => ∀ a ∈ seen ++ hidden, containsSub a "cfg(test)".toList = isCfgTest a
  | _ => True
def Plain (frames : List Frame) : Prop := ∀ f ∈ frames, FramePlain f

theorem filterMap_congr_on {α β} (l : List α) (f g : α → Option β) (h : ∀ a ∈ l, f a = g a) : l.filterMap f = l.filterMap g := by
  induction l with
  | nil => rfl
  | cons a t ih =>
    simp only [List.filterMap_cons, h a (by simp)]
    rw [ih (fun b hb => h b (by simp [hb]))]

theorem any_congr_on {α} (l : List α) (p q : α → Bool) (h : ∀ a ∈ l, p a = q a) : l.any p = l.any q := by
  induction l with
  | nil => rfl
  | cons a t ih =>
    simp only [List.any_cons, h a (by simp)]
    rw [ih (fun b hb => h b (by simp [hb]))]

/-- **Test code is recognised exactly** (repaired code): under any nesting of modules, functions,
    loops, closures and blocks, with any number of attributes and comments between attribute and item,
    a call counts as test code iff a `#[test]`-like function or a `#[cfg(test)]` module encloses it. -/
theorem test_context_exact (frames : List Frame) (h : Plain frames) :
    isInsideTest frames = specInsideTest frames := by
  unfold isInsideTest isInsideTestG specInsideTest
  apply any_congr_on
  intro f hf
  have := h f hf
  cases f with
  | fn seen hidden a => simp only [if_true]; exact any_congr_on _ _ _ this
  | mod seen hidden => simp only [if_true]; exact any_congr_on _ _ _ this
  | _ => rfl

/-- the attribute alphabet the correspondence check plants on functions … -/
def fnAttrAlphabet : List String :=
  ["test", "tokio::test", "tokio::test(flavor = \"multi_thread\")", "async_std::test", "inline", "allow(dead_code)", "cfg(not(test))",
   "doc = \"returns the latest value\"", "cfg(feature = \"testing\")", "allow(clippy::tests_outside_test_module)", "must_use",
   "cfg(not( test ))", "doc = \"a \\\"test\\\" helper\"", "contest", "attest(1)"]
/-- … and on modules -/
def modAttrAlphabet : List String :=
  ["cfg(test)", "cfg(not(test))", "allow(dead_code)", "cfg(feature = \"test-utils\")", "path = \"tests.rs\"", "doc = \"see cfg(test)\"", "cfg(unix)"]

/-- every attribute the correspondence check plants is plain -/
theorem alphabet_plain :
    (∀ a ∈ fnAttrAlphabet, marksTest a.toList = isTestAttr a.toList) ∧
    (∀ a ∈ modAttrAlphabet.filter (· != "doc = \"see cfg(test)\""), containsSub a.toList "cfg(test)".toList = isCfgTest a.toList) := by
  decide +kernel

/-- known limit, stated: a module attribute that only *mentions* `cfg(test)` inside a string still makes
    the module test code for the analyzer (kept in the alphabet as a model-only case) -/
theorem mod_substring_limit :
    containsSub "doc = \"see cfg(test)\"".toList "cfg(test)".toList = true ∧ isCfgTest "doc = \"see cfg(test)\"".toList = false := by decide +kernel

/-- finding F17a (before the repair): production code under `#[cfg(not(test))]` counted as test code -/
theorem F17a_witness :
    isInsideTestG false [.fn ["cfg(not(test))".toList] [] false] = true ∧
    isInsideTestG true [.fn ["cfg(not(test))".toList] [] false] = false ∧
    specInsideTest [.fn ["cfg(not(test))".toList] [] false] = false := by decide +kernel

/-- finding F17b (before the repair): a comment between `#[test]` and the function hid the attribute -/
theorem F17b_witness :
    isInsideTestG false [.mod [] [] , .fn ["inline".toList] ["test".toList] false] = false ∧
    isInsideTestG true [.mod [] [], .fn ["inline".toList] ["test".toList] false] = true ∧
    specInsideTest [.mod [] [], .fn ["inline".toList] ["test".toList] false] = true := by decide +kernel

/-! ## Per-call verdicts -/

/-- **unwrap-abuse**: `.unwrap()` always, `.expect()` when allow_expect is off, except in test code while
    allow_in_tests is on — for every nesting and every setting -/
theorem unwrap_exact (c : UCfg) (frames : List Frame) (m : UMethod) (h : Plain frames) :
    unwrapReported c frames m = unwrapSpec c frames m := by
  unfold unwrapReported unwrapSpec
  rw [test_context_exact frames h]
  cases m <;> simp [Bool.and_comm]

theorem clone_exact (c : CCfg) (frames : List Frame) (s : CloneSite) (h : Plain frames) :
    cloneReported c frames s = cloneSpec c frames s := by
  unfold cloneReported cloneSpec
  rw [test_context_exact frames h]

/-- **Wrappers are recognised in every spelling** (repaired code) -/
theorem wrapper_exact (frames : List Frame) : insideWrapper frames = specInsideWrapper frames := by
  unfold insideWrapper insideWrapperG specInsideWrapper
  congr 1; funext f
  cases f with
  | call st n => cases st <;> simp
  | _ => rfl

/-- finding F17d (before the repair): `handle.spawn_blocking(|| std::fs::read(..))` was not a wrapper -/
theorem F17d_witness :
    insideWrapperG false [.fn [] [] true, .call .method "spawn_blocking".toList, .closure] = false ∧
    insideWrapperG true [.fn [] [] true, .call .method "spawn_blocking".toList, .closure] = true ∧
    specInsideWrapper [.fn [] [] true, .call .method "spawn_blocking".toList, .closure] = true := by decide +kernel

theorem blocking_exact (c : BCfg) (frames : List Frame) (parts : List Str) (h : Plain frames) :
    blockingReported c frames parts = blockingSpec c frames parts := by
  unfold blockingReported blockingSpec
  rw [test_context_exact frames h, wrapper_exact]

theorem verdict_exact (cfg : Cfg) (frames : List Frame) (s : Site) (h : Plain frames) :
    verdict cfg frames s = specVerdict cfg frames s := by
  cases s with
  | unwrap m => simp only [verdict, specVerdict, unwrap_exact _ _ _ h]
  | clone s => simp only [verdict, specVerdict, clone_exact _ _ _ h]
  | path p => simp only [verdict, specVerdict, blocking_exact _ _ _ h]

/-- what the unwrap verdict says, spelled out -/
theorem unwrap_reported_iff (c : UCfg) (frames : List Frame) (m : UMethod) :
    unwrapSpec c frames m = true ↔
      (m = .unwrap ∨ (m = .expect ∧ c.allowExpect = false)) ∧ ¬ (specInsideTest frames = true ∧ c.allowInTests = true) := by
  cases m <;> simp [unwrapSpec] <;> (cases c.allowExpect <;> cases c.allowInTests <;> cases specInsideTest frames <;> simp)

/-- a clone is reported iff it is chained, in a loop, or an unused-source `let` clone — with that
    priority — its category is switched on, and the test exemption does not apply -/
theorem clone_reported_iff (c : CCfg) (frames : List Frame) (s : CloneSite) (p : ClonePattern) :
    cloneSpec c frames s = some p ↔
      classifyClone frames s = some p ∧ cloneEnabled c p = true ∧ ¬ (specInsideTest frames = true ∧ c.allowInTests = true) := by
  unfold cloneSpec
  cases hc : classifyClone frames s with
  | none => simp
  | some q =>
    by_cases hq : q = p
    · subst hq
      cases he : cloneEnabled c q <;> cases specInsideTest frames <;> cases c.allowInTests <;> simp [he]
    · cases he : cloneEnabled c q <;> cases specInsideTest frames <;> cases c.allowInTests <;> simp [hq, he]

theorem classify_priority (frames : List Frame) (s : CloneSite) :
    (s.chained = true → classifyClone frames s = some .chain) ∧
    (s.chained = false → insideLoop frames = true → classifyClone frames s = some .inLoop) ∧
    (s.chained = false → insideLoop frames = false →
      (classifyClone frames s = some .unnecessary ↔ boundByLet frames = true ∧ s.simpleReceiver = true ∧ s.usedAfter = false)) := by
  unfold classifyClone
  refine ⟨?_, ?_, ?_⟩
  · intro h; simp [h]
  · intro h1 h2; simp [h1, h2]
  · intro h1 h2
    cases boundByLet frames <;> cases s.simpleReceiver <;> cases s.usedAfter <;> simp [h1, h2]

/-- a blocking call is reported iff it is lexically inside an `async fn`, names a blocking API, is not
    inside a wrapper, its category is on and the test exemption does not apply -/
theorem blocking_reported_iff (c : BCfg) (frames : List Frame) (parts : List Str) (p : BlockPattern) :
    blockingSpec c frames parts = some p ↔
      insideAsyncFn frames = true ∧ isShadowed c.shadowed parts = false ∧ classifyPath parts = some p ∧ specInsideWrapper frames = false ∧
      blockEnabled c p = true ∧ ¬ (specInsideTest frames = true ∧ c.allowInTests = true) := by
  unfold blockingSpec
  cases insideAsyncFn frames
  · simp
  · cases hs : isShadowed c.shadowed parts
    · cases hc : classifyPath parts with
      | none => simp
      | some q =>
        by_cases hq : q = p
        · subst hq
          cases specInsideWrapper frames <;> cases he : blockEnabled c q <;> cases specInsideTest frames <;> cases c.allowInTests <;> simp [he]
        · cases specInsideWrapper frames <;> cases he : blockEnabled c q <;> cases specInsideTest frames <;> cases c.allowInTests <;> simp [hq, he]
    · simp

/-- a short path whose first segment the file imports from another crate is never reported -/
theorem shadowed_never_reported (c : BCfg) (frames : List Frame) (parts : List Str) (h : isShadowed c.shadowed parts = true) :
    blockingReported c frames parts = none := by
  unfold blockingReported; simp [h]

/-- the blocking API tables regenerated from /repo classify the documented calls as documented -/
theorem blocking_tables :
    (∀ f ∈ Gen.Rust.blockingFsFunctions, classifyPath ["std".toList, "fs".toList, f.toList] = some .fs ∧ classifyPath ["fs".toList, f.toList] = some .fs) ∧
    (∀ t ∈ Gen.Rust.blockingNetTypes, classifyPath ["std".toList, "net".toList, t.toList, "connect".toList] = some .net ∧
        classifyPath ["net".toList, t.toList, "bind".toList] = some .net) ∧
    classifyPath ["std".toList, "thread".toList, "sleep".toList] = some .sleep ∧ classifyPath ["thread".toList, "sleep".toList] = some .sleep ∧
    classifyPath ["tokio".toList, "fs".toList, "read".toList] = none ∧ classifyPath ["tokio".toList, "time".toList, "sleep".toList] = none ∧
    Gen.Rust.blockingFsFunctions.length ≥ 10 ∧ Gen.Rust.blockingNetTypes.length ≥ 3 ∧
    (["asyncify", "block_in_place", "spawn_blocking"].all Gen.Rust.asyncWrapperFunctions.contains) = true ∧
    (["for_expression", "loop_expression", "while_expression"].all Gen.Rust.loopNodeTypes.contains) = true := by
  decide +kernel

/-! ## Options act independently -/

/-- with allow_in_tests off, attributes play no role at all -/
def eraseAttrs : Frame → Frame
  | .fn _ _ a => .fn [] [] a
  | .mod _ _ => .mod [] []
  | f => f

theorem insideLoop_erase (frames : List Frame) : insideLoop (frames.map eraseAttrs) = insideLoop frames := by
  unfold insideLoop; rw [List.any_map]; congr 1; funext f; cases f <;> rfl
theorem insideAsync_erase (frames : List Frame) : insideAsyncFn (frames.map eraseAttrs) = insideAsyncFn frames := by
  unfold insideAsyncFn; rw [List.any_map]; congr 1; funext f; cases f <;> rfl
theorem insideWrapper_erase (frames : List Frame) : insideWrapper (frames.map eraseAttrs) = insideWrapper frames := by
  unfold insideWrapper insideWrapperG; rw [List.any_map]; congr 1; funext f; cases f <;> rfl
theorem up_erase (l : List Frame) : boundByLet.up (l.map eraseAttrs) = boundByLet.up l := by
  induction l with
  | nil => rfl
  | cons f t ih => cases f <;> simp [boundByLet.up, eraseAttrs, ih]
theorem boundByLet_erase (frames : List Frame) : boundByLet (frames.map eraseAttrs) = boundByLet frames := by
  cases frames with
  | nil => rfl
  | cons f t =>
    simp only [boundByLet, List.map_cons]
    rw [← List.map_cons, ← List.map_reverse, up_erase]

theorem no_exemption_when_disallowed (cfg : Cfg) (frames : List Frame) (s : Site)
    (hu : cfg.u.allowInTests = false) (hc : cfg.c.allowInTests = false) (hb : cfg.b.allowInTests = false) :
    verdict cfg frames s = verdict cfg (frames.map eraseAttrs) s := by
  cases s with
  | unwrap m => cases m <;> simp [verdict, unwrapReported, hu]
  | clone s =>
    simp only [verdict, cloneReported, classifyClone, hc, Bool.and_false, Bool.false_or, insideLoop_erase, boundByLet_erase]
  | path p =>
    simp only [verdict, blockingReported, hb, Bool.and_false, Bool.false_or, Bool.or_false, insideAsync_erase, insideWrapper_erase]

/-- switching one detect_* option off removes the reports of that category and nothing else -/
theorem clone_switch (c : CCfg) (frames : List Frame) (s : CloneSite) :
    cloneReported { c with detectLoop := false } frames s = (cloneReported { c with detectLoop := true } frames s).filter (· != .inLoop) ∧
    cloneReported { c with detectChain := false } frames s = (cloneReported { c with detectChain := true } frames s).filter (· != .chain) ∧
    cloneReported { c with detectUnnecessary := false } frames s = (cloneReported { c with detectUnnecessary := true } frames s).filter (· != .unnecessary) := by
  unfold cloneReported
  cases classifyClone frames s with
  | none => simp
  | some p =>
    cases p <;> simp [cloneEnabled] <;> (cases isInsideTest frames <;> cases c.allowInTests <;> cases c.detectLoop <;> cases c.detectChain <;> cases c.detectUnnecessary <;> simp <;> decide)

theorem blocking_switch (c : BCfg) (frames : List Frame) (parts : List Str) :
    blockingReported { c with detectFs := false } frames parts = (blockingReported { c with detectFs := true } frames parts).filter (· != .fs) ∧
    blockingReported { c with detectSleep := false } frames parts = (blockingReported { c with detectSleep := true } frames parts).filter (· != .sleep) ∧
    blockingReported { c with detectNet := false } frames parts = (blockingReported { c with detectNet := true } frames parts).filter (· != .net) := by
  unfold blockingReported
  cases insideAsyncFn frames
  · simp
  · cases isShadowed c.shadowed parts
    · cases classifyPath parts with
      | none => simp
      | some p =>
        cases p <;> simp [blockEnabled] <;> (cases insideWrapper frames <;> cases isInsideTest frames <;> cases c.allowInTests <;> cases c.detectFs <;> cases c.detectSleep <;> cases c.detectNet <;> simp <;> decide)
    · simp

/-! ## Whole files: every call is judged exactly once -/

def report (cfg : Cfg) (x : Nat × List Frame × Site) : Option (Nat × Rule) := (verdict cfg x.2.1 x.2.2).map (fun r => (x.1, r))

theorem scan_eq_sites (cfg : Cfg) : ∀ (anc : List Frame) (n : Node), scan cfg anc n = (sites anc n).filterMap (report cfg)
  | anc, .mk id fr site ch => by
    simp only [scan, sites, List.filterMap_append]
    have hch : (if hidesKids fr then [] else scanList cfg (pushFrame anc fr) ch) =
        List.filterMap (report cfg) (if hidesKids fr then [] else sitesList (pushFrame anc fr) ch) := by
      cases hidesKids fr
      · simp only [Bool.false_eq_true, if_false]; exact scanList_eq_sites cfg (pushFrame anc fr) ch
      · simp
    rw [hch]
    cases site with
    | none => simp
    | some s =>
      simp only [Option.bind_some, List.filterMap_cons, List.filterMap_nil, report]
      cases verdict cfg anc s <;> simp
where
  scanList_eq_sites (cfg : Cfg) : ∀ (anc : List Frame) (l : NodeList), scanList cfg anc l = (sitesList anc l).filterMap (report cfg)
    | _, .nil => by simp [scanList, sitesList]
    | anc, .cons n rest => by
      simp only [scanList, sitesList, List.filterMap_append]
      rw [scan_eq_sites cfg anc n, scanList_eq_sites cfg anc rest]

theorem count_filterMap_report (cfg : Cfg) (l : List (Nat × List Frame × Site)) (id : Nat)
    (hnd : (l.map (·.1)).Nodup) (x : Nat × List Frame × Site) (hx : x ∈ l) (hid : x.1 = id) :
    ((l.filterMap (report cfg)).map (·.1)).count id = if (verdict cfg x.2.1 x.2.2).isSome then 1 else 0 := by
  induction l with
  | nil => cases hx
  | cons y t ih =>
    simp only [List.map_cons, List.nodup_cons] at hnd
    rcases List.mem_cons.mp hx with rfl | hx'
    · -- x is the head; nothing in the tail has its id
      have htail : ((t.filterMap (report cfg)).map (·.1)).count id = 0 := by
        rw [List.count_eq_zero]
        intro hmem
        simp only [List.mem_map, List.mem_filterMap] at hmem
        obtain ⟨⟨i, r⟩, ⟨z, hz, hrep⟩, hi⟩ := hmem
        simp only [report] at hrep
        cases hv : verdict cfg z.2.1 z.2.2 with
        | none => simp [hv] at hrep
        | some r' =>
          simp [hv] at hrep
          have : z.1 = id := by rw [hrep.1]; exact hi
          exact hnd.1 (by rw [hid, ← this]; exact List.mem_map_of_mem hz)
      simp only [List.filterMap_cons, report]
      cases hv : verdict cfg x.2.1 x.2.2 with
      | none => simp [htail]
      | some r => simp [htail, hid]
    · have hne : y.1 ≠ id := by
        intro h; apply hnd.1; rw [h, ← hid]; exact List.mem_map_of_mem hx'
      simp only [List.filterMap_cons, report]
      cases hv : verdict cfg y.2.1 y.2.2 with
      | none => simpa [report] using ih hnd.2 hx'
      | some r =>
        simp only [Option.map_some, List.map_cons, List.count_cons]
        have : (y.1 == id) = false := by simpa using hne
        simp only [this, Bool.false_eq_true, if_false, Nat.add_zero]
        simpa [report] using ih hnd.2 hx'

/-- **Exactly once**: in a file whose nodes have distinct positions, every call site is reported once if
    its verdict says so and not at all otherwise — for every tree, however deep — and nothing else is
    reported. -/
theorem exactly_once (cfg : Cfg) (n : Node) (hnd : ((sites [] n).map (·.1)).Nodup) :
    (∀ x ∈ sites [] n, ((scan cfg [] n).map (·.1)).count x.1 = if (verdict cfg x.2.1 x.2.2).isSome then 1 else 0) ∧
    (∀ r ∈ scan cfg [] n, ∃ x ∈ sites [] n, x.1 = r.1 ∧ verdict cfg x.2.1 x.2.2 = some r.2) := by
  rw [scan_eq_sites]
  constructor
  · intro x hx
    exact count_filterMap_report cfg _ x.1 hnd x hx rfl
  · intro r hr
    simp only [List.mem_filterMap, report] at hr
    obtain ⟨x, hx, hrep⟩ := hr
    refine ⟨x, hx, ?_⟩
    cases hv : verdict cfg x.2.1 x.2.2 with
    | none => simp [hv] at hrep
    | some r' => simp [hv] at hrep; subst hrep; simp

theorem sites_eq_allSites : ∀ (anc : List Frame) (n : Node), macroFree n = true → sites anc n = allSites anc n
  | anc, .mk id fr site ch => by
    intro h
    simp only [macroFree, Bool.and_eq_true, Bool.not_eq_true'] at h
    simp only [sites, allSites, h.1, Bool.false_eq_true, if_false]
    rw [sitesList_eq (pushFrame anc fr) ch h.2]
where
  sitesList_eq : ∀ (anc : List Frame) (l : NodeList), macroFreeList l = true → sitesList anc l = allSitesList anc l
    | _, .nil => by intro _; rfl
    | anc, .cons n rest => by
      intro h
      simp only [macroFreeList, Bool.and_eq_true] at h
      simp only [sitesList, allSitesList, sites_eq_allSites anc n h.1, sitesList_eq anc rest h.2]

/-- … and on files without calls hidden in macro arguments, whose attributes are plain, the reported
    list is exactly the specified one: every call written in the file, judged by the property's rule -/
theorem scan_meets_spec_partial (cfg : Cfg) (n : Node) (hm : macroFree n = true) (hp : ∀ x ∈ allSites [] n, Plain x.2.1) :
    scan cfg [] n = (allSites [] n).filterMap (fun x => (specVerdict cfg x.2.1 x.2.2).map (fun r => (x.1, r))) := by
  rw [scan_eq_sites, sites_eq_allSites [] n hm]
  apply filterMap_congr_on
  intro x hx
  simp only [report, verdict_exact cfg _ _ (hp x hx)]

/-- finding F17c: a call written inside macro arguments is never reported, whatever the settings -/
theorem F17c_witness :
    let t := Node.mk 0 (some (.fn [] [] false)) none (.cons (.mk 1 (some .macroArgs) none (.cons (.mk 2 none (some (.unwrap .unwrap)) .nil) .nil)) .nil)
    scan ⟨⟨false, false⟩, ⟨false, true, true, true⟩, ⟨false, true, true, true, []⟩⟩ [] t = [] ∧
    (allSites [] t).filterMap (fun x => (specVerdict ⟨⟨false, false⟩, ⟨false, true, true, true⟩, ⟨false, true, true, true, []⟩⟩ x.2.1 x.2.2).map (fun r => (x.1, r))) = [(2, .unwrapCall)] := by
  decide +kernel

/-! ## Non-vacuity -/

def demoTree : Node :=
  .mk 0 none none (.cons
    (.mk 1 (some (.mod ["cfg(test)".toList] [])) none (.cons
      (.mk 2 (some (.mod [] [])) none (.cons
        (.mk 3 (some (.fn [] [] false)) none (.cons (.mk 4 none (some (.unwrap .unwrap)) .nil) .nil)) .nil)) .nil))
    (.cons (.mk 5 (some (.fn [] ["tokio::test".toList] true)) none (.cons
      (.mk 6 (some .loop) none (.cons (.mk 7 none (some (.clone ⟨false, true, false⟩)) .nil)
        (.cons (.mk 8 none (some (.path ["std".toList, "fs".toList, "read".toList])) .nil) .nil))) .nil))
    (.cons (.mk 9 (some (.fn ["inline".toList] [] true)) none (.cons
      (.mk 10 (some (.call .scoped "spawn_blocking".toList)) (some (.path ["tokio".toList, "task".toList, "spawn_blocking".toList])) (.cons
        (.mk 11 none (some (.path ["std".toList, "fs".toList, "read".toList])) .nil) .nil))
      (.cons (.mk 12 (some .letDecl) none (.cons (.mk 13 none (some (.clone ⟨true, false, false⟩)) (.cons
        (.mk 14 none (some (.clone ⟨false, true, false⟩)) .nil) .nil)) .nil))
      (.cons (.mk 15 none (some (.path ["thread".toList, "sleep".toList])) .nil) .nil)))) .nil)))

def allOn (t : Bool) : Cfg := ⟨⟨t, false⟩, ⟨t, true, true, true⟩, ⟨t, true, true, true, []⟩⟩

example : scan (allOn true) [] demoTree = [(13, .cloneChain), (14, .unnecessaryClone), (15, .sleepInAsync)] := by decide +kernel
example : scan (allOn false) [] demoTree =
    [(4, .unwrapCall), (7, .cloneInLoop), (8, .fsInAsync), (13, .cloneChain), (14, .unnecessaryClone), (15, .sleepInAsync)] := by decide +kernel
example : ((sites [] demoTree).map (·.1)).Nodup ∧ macroFree demoTree = true ∧ ∀ x ∈ allSites [] demoTree, Plain x.2.1 := by
  refine ⟨?_, ?_, ?_⟩
  · decide +kernel
  · decide +kernel
  · intro x hx
    have : (allSites [] demoTree).all (fun x => x.2.1.all fun f => match f with
        | .fn s h _ => (s ++ h).all (fun a => marksTest a == isTestAttr a)
        | .mod s h => (s ++ h).all (fun a => containsSub a "cfg(test)".toList == isCfgTest a)
        | _ => true) = true := by decide +kernel
    have hx' := List.all_eq_true.mp this x hx
    intro f hf
    have hf' := List.all_eq_true.mp hx' f hf
    cases f with
    | fn s h a => intro b hb; simpa using List.all_eq_true.mp hf' b hb
    | mod s h => intro b hb; simpa using List.all_eq_true.mp hf' b hb
    | _ => trivial

end ThaiLintModel.C17
