/- C18 — driver glue -/
import ThaiLintModel.Core.J
import ThaiLintModel.C18.Model
namespace ThaiLintModel.C18
open Lean ThaiLintModel

def patsOf (j : Json) (k : String) : Option (List Pat) :=
  match j.getObjVal? k with
  | .ok (.arr a) => some (a.toList.filterMap (fun x => x.getNat?.toOption))
  | _ => none

def vJson : V → Json
  | .dirDeny k p => Json.mkObj [("kind", "dirDeny"), ("key", String.ofList k), ("pat", p)]
  | .dirAllow k => Json.mkObj [("kind", "dirAllow"), ("key", String.ofList k)]
  | .globalDeny p => Json.mkObj [("kind", "globalDeny"), ("pat", p)]
  | .globalAllow => Json.mkObj [("kind", "globalAllow")]

def handle (j : Json) : Json :=
  let dirs : Option (List DirRule) := match j.getObjVal? "dirs" with
    | .ok (.arr a) => some (a.toList.map fun d => { key := (J.strD d "key" "").toList, deny := patsOf d "deny", allow := patsOf d "allow" })
    | _ => none
  let gp := match j.getObjVal? "globalPatterns" with
    | .ok (.obj _) => some (patsOf ((j.getObjVal? "globalPatterns").toOption.getD Json.null) "deny", patsOf ((j.getObjVal? "globalPatterns").toOption.getD Json.null) "allow")
    | _ => none
  let c : Config := { directories := dirs, globalDeny := patsOf j "globalDeny", globalPatterns := gp }
  let ca := J.boolD j "componentAware" true
  let outs := (J.arrD j "paths").toList.map fun pj =>
    let path := (J.strD pj "path" "").toList
    let ms := (J.arrD pj "matches").toList.map (fun x => x.getBool?.toOption.getD false)
    let rx := fun (p : Pat) => ms.getD p false
    let vs := checkAll ca rx path c
    Json.mkObj [("violations", Json.arr (vs.map vJson).toArray), ("spec", specReported rx path c),
                ("modelOld", !(checkAll false rx path c).isEmpty)]
  Json.mkObj [("paths", Json.arr outs.toArray)]

end ThaiLintModel.C18
