/-
C18 — file-placement verdicts.  Executable model (no Mathlib, no proofs) of `RuleChecker.check_all_rules`,
`DirectoryMatcher.find_matching_rule` and `PatternMatcher` (`src/linters/file_placement/`).
Regular-expression matching is a *parameter* (`rx pattern path`): the correspondence check
supplies Python's `re.search(pattern, path, IGNORECASE)`.
-/
namespace ThaiLintModel.C18

abbrev Str := List Char
abbrev Pat := Nat                         -- index of a pattern in the configuration

structure DirRule where
  key : Str                               -- directory key as written ("src", "src/models", "/")
  deny : Option (List Pat)
  allow : Option (List Pat)
  deriving Repr

structure Config where
  directories : Option (List DirRule)     -- `None` = key absent
  globalDeny : Option (List Pat)
  globalPatterns : Option (Option (List Pat) × Option (List Pat))   -- (deny, allow)
  deriving Repr

inductive V where
  | dirDeny (key : Str) (pat : Pat)
  | dirAllow (key : Str)
  | globalDeny (pat : Pat)
  | globalAllow
  deriving DecidableEq, Repr

def countParts (s : Str) : Nat := (s.filter (· == '/')).length + 1     -- `len(dir_path.split("/"))`
/-- `len(dir_path.rstrip("/").split("/"))`: a key written with a trailing slash is as deep as the same key without it -/
def keyDepth (s : Str) : Nat := countParts (s.reverse.dropWhile (· == '/')).reverse

/-- `_check_path_match`; `componentAware = true` is the repaired test (the key must be the path itself or
    be followed by "/"), `false` the original string-prefix test (finding F18a) -/
def pathMatch (componentAware : Bool) (key path : Str) : Option Nat :=
  if key == ['/'] then (if path.contains '/' then none else some 0)
  else if componentAware then
    (if path == key || (key ++ ['/']).isPrefixOf path || (key.getLast? == some '/' && key.isPrefixOf path) then some (keyDepth key) else none)
  else (if key.isPrefixOf path then some (countParts key) else none)

/-- `find_matching_rule`: the first rule of strictly greatest depth -/
def findRule (ca : Bool) (path : Str) : List DirRule → Option (DirRule × Nat) → Option (DirRule × Nat)
  | [], best => best
  | r :: rest, best =>
    match pathMatch ca r.key path with
    | some d =>
      (match best with
       | some (_, bd) => if d > bd then findRule ca path rest (some (r, d)) else findRule ca path rest best
       | none => findRule ca path rest (some (r, d)))
    | none => findRule ca path rest best

def firstMatch (rx : Pat → Bool) (ps : List Pat) : Option Pat := ps.find? rx

/-- `_check_directory_rules`: deny first, then allow -/
def checkDirectory (ca : Bool) (rx : Pat → Bool) (path : Str) (dirs : List DirRule) : List V :=
  match findRule ca path dirs none with
  | none => []
  | some (r, _) =>
    match r.deny.bind (firstMatch rx) with
    | some p => [.dirDeny r.key p]
    | none =>
      match r.allow with
      | some al => if al.any rx then [] else [.dirAllow r.key]
      | none => []

def checkGlobalDeny (rx : Pat → Bool) (gd : List Pat) : List V :=
  match firstMatch rx gd with
  | some p => [.globalDeny p]
  | none => []

def checkGlobalPatterns (rx : Pat → Bool) (gp : Option (List Pat) × Option (List Pat)) : List V :=
  match gp.1.bind (firstMatch rx) with
  | some p => [.globalDeny p]
  | none =>
    match gp.2 with
    | some al => if al.any rx then [] else [.globalAllow]
    | none => []

def dirPart (ca : Bool) (rx : Pat → Bool) (path : Str) (c : Config) : List V :=
  match c.directories with | some d => checkDirectory ca rx path d | none => []
def gdPart (rx : Pat → Bool) (c : Config) : List V :=
  match c.globalDeny with | some g => checkGlobalDeny rx g | none => []
def gpPart (rx : Pat → Bool) (c : Config) : List V :=
  match c.globalPatterns with | some g => checkGlobalPatterns rx g | none => []

/-- `check_all_rules` -/
def checkAll (ca : Bool) (rx : Pat → Bool) (path : Str) (c : Config) : List V :=
  dirPart ca rx path c ++ gdPart rx c ++ gpPart rx c

/-! ## Specification -/

/-- a directory key *contains* a path when it is a component-wise prefix of it -/
def contains (key path : Str) : Bool :=
  if key == ['/'] then !path.contains '/'
  else path == key || (key ++ ['/']).isPrefixOf path || (key.getLast? == some '/' && key.isPrefixOf path)

/-- the most specific containing rule (greatest number of components - a trailing slash adds none -, first on ties) -/
def mostSpecific (path : Str) (dirs : List DirRule) : Option DirRule :=
  let cands := dirs.filter (fun r => contains r.key path)
  cands.foldl (fun best r => match best with
    | none => some r
    | some b => if (if r.key == ['/'] then 0 else keyDepth r.key) > (if b.key == ['/'] then 0 else keyDepth b.key) then some r else some b) none

def denyHit (rx : Pat → Bool) (deny : Option (List Pat)) : Bool :=
  match deny with | some d => d.any rx | none => false
def allowMiss (rx : Pat → Bool) (allow : Option (List Pat)) : Bool :=
  match allow with | some a => !a.any rx | none => false

/-- verdict of one allow/deny rule pair: deny wins, then an allow list that matches nothing -/
def ruleViolated (rx : Pat → Bool) (deny allow : Option (List Pat)) : Bool := denyHit rx deny || allowMiss rx allow

/-- reported iff the most specific directory rule is violated, or the global deny list rx, or the
    global allow/deny patterns are violated -/
def specReported (rx : Pat → Bool) (path : Str) (c : Config) : Bool :=
  (match c.directories.bind (mostSpecific path) with | some r => ruleViolated rx r.deny r.allow | none => false) ||
  denyHit rx c.globalDeny ||
  (match c.globalPatterns with | some g => ruleViolated rx g.1 g.2 | none => false)

end ThaiLintModel.C18
