import ThaiLintModel.C18.Model
namespace ThaiLintModel.C18

theorem firstMatch_isSome (m : Pat → Bool) (ps : List Pat) : (firstMatch m ps).isSome = ps.any m := by
  induction ps with
  | nil => rfl
  | cons p r ih => simp only [firstMatch, List.find?, List.any] at *; cases m p <;> simp [ih]

theorem bind_firstMatch (m : Pat → Bool) (o : Option (List Pat)) :
    (o.bind (firstMatch m)).isSome = denyHit m o := by
  cases o with
  | none => rfl
  | some d => simpa [denyHit] using firstMatch_isSome m d

theorem bind_firstMatch_none (m : Pat → Bool) (o : Option (List Pat)) (h : denyHit m o = false) :
    o.bind (firstMatch m) = none := by
  have := bind_firstMatch m o
  rw [h] at this
  cases hb : o.bind (firstMatch m) with
  | none => rfl
  | some p => rw [hb] at this; simp at this

/-- one allow/deny pair produces a violation iff the pair is violated (deny taking precedence) -/
theorem pair_exact (m : Pat → Bool) (deny allow : Option (List Pat)) :
    (!(checkGlobalPatterns m (deny, allow)).isEmpty) = ruleViolated m deny allow := by
  unfold checkGlobalPatterns ruleViolated
  have h := bind_firstMatch m deny
  cases hd : deny.bind (firstMatch m) with
  | some p => rw [hd] at h; simp only at h ⊢; rw [← h]; rfl
  | none =>
    rw [hd] at h
    simp only at h ⊢
    rw [← h]
    cases allow with
    | none => rfl
    | some al => cases hal : al.any m <;> simp [allowMiss, hal]

/-- `findRule` returns a rule of the list whose key matches the path -/
theorem findRule_mem (ca : Bool) (path : Str) :
    ∀ (dirs : List DirRule) (best : Option (DirRule × Nat)) (r : DirRule) (d : Nat),
      findRule ca path dirs best = some (r, d) →
      best = some (r, d) ∨ (r ∈ dirs ∧ pathMatch ca r.key path = some d) := by
  intro dirs
  induction dirs with
  | nil => intro best r d h; left; simpa [findRule] using h
  | cons x rest ih =>
    intro best r d h
    simp only [findRule] at h
    cases hm : pathMatch ca x.key path with
    | none =>
      rw [hm] at h
      rcases ih best r d h with h' | ⟨h1, h2⟩
      · exact Or.inl h'
      · exact Or.inr ⟨List.mem_cons_of_mem _ h1, h2⟩
    | some dx =>
      rw [hm] at h
      cases best with
      | none =>
        rcases ih (some (x, dx)) r d h with h' | ⟨h1, h2⟩
        · simp at h'; right; exact ⟨by simp [h'.1], by rw [← h'.1, ← h'.2]; exact hm⟩
        · exact Or.inr ⟨List.mem_cons_of_mem _ h1, h2⟩
      | some b =>
        obtain ⟨br, bd⟩ := b
        simp only at h
        split at h
        · rcases ih (some (x, dx)) r d h with h' | ⟨h1, h2⟩
          · simp at h'; right; exact ⟨by simp [h'.1], by rw [← h'.1, ← h'.2]; exact hm⟩
          · exact Or.inr ⟨List.mem_cons_of_mem _ h1, h2⟩
        · rcases ih (some (br, bd)) r d h with h' | ⟨h1, h2⟩
          · exact Or.inl h'
          · exact Or.inr ⟨List.mem_cons_of_mem _ h1, h2⟩

/-- **Every directory violation comes from a rule that really contains the file** (repaired matcher):
    the governing rule's key is the path itself or a component-wise prefix of it. -/
theorem governing_rule_contains (path : Str) (dirs : List DirRule) (r : DirRule) (d : Nat)
    (h : findRule true path dirs none = some (r, d)) : r ∈ dirs ∧ contains r.key path = true := by
  rcases findRule_mem true path dirs none r d h with h' | ⟨h1, h2⟩
  · simp at h'
  · refine ⟨h1, ?_⟩
    unfold pathMatch at h2
    unfold contains
    split at h2
    · rename_i hk; simp only [hk, if_true]; split at h2 <;> simp_all
    · rename_i hk
      simp only [hk, Bool.false_eq_true, if_false]
      simp only [if_true] at h2
      split at h2
      · assumption
      · simp at h2

/-- **No rules configured: nothing is ever reported** -/
theorem no_rules_no_report (ca : Bool) (m : Pat → Bool) (path : Str) :
    checkAll ca m path ⟨none, none, none⟩ = [] ∧ checkAll ca m path ⟨some [], some [], some (none, none)⟩ = [] := by
  simp [checkAll, dirPart, gdPart, gpPart, checkDirectory, findRule, checkGlobalDeny, checkGlobalPatterns, firstMatch]

/-- **Files satisfying all applicable rules are never reported**: if no deny pattern matches and every
    allow list that applies has a match, there is no violation. -/
theorem satisfied_no_report (ca : Bool) (m : Pat → Bool) (path : Str) (c : Config)
    (hdir : ∀ ds r d, c.directories = some ds → findRule ca path ds none = some (r, d) → ruleViolated m r.deny r.allow = false)
    (hgd : denyHit m c.globalDeny = false)
    (hgp : ∀ g, c.globalPatterns = some g → ruleViolated m g.1 g.2 = false) :
    checkAll ca m path c = [] := by
  unfold checkAll
  have h1 : dirPart ca m path c = [] := by
    unfold dirPart
    cases hd : c.directories with
    | none => rfl
    | some ds =>
      simp only [checkDirectory]
      cases hf : findRule ca path ds none with
      | none => rfl
      | some rd =>
        obtain ⟨r, d⟩ := rd
        have hv := hdir ds r d hd hf
        unfold ruleViolated at hv
        have hden : denyHit m r.deny = false := by cases h : denyHit m r.deny <;> simp_all
        have hall : allowMiss m r.allow = false := by cases h : allowMiss m r.allow <;> simp_all
        simp only [bind_firstMatch_none m r.deny hden]
        cases ha : r.allow with
        | none => rfl
        | some al =>
          rw [ha] at hall
          simp only [allowMiss, Bool.not_eq_false'] at hall
          simp [hall]
  have h2 : gdPart m c = [] := by
    unfold gdPart
    cases hg : c.globalDeny with
    | none => rfl
    | some g =>
      rw [hg] at hgd
      have := bind_firstMatch_none m (some g) hgd
      simp only [Option.bind] at this
      simp only [checkGlobalDeny, this]
  have h3 : gpPart m c = [] := by
    unfold gpPart
    cases hg : c.globalPatterns with
    | none => rfl
    | some g =>
      have := hgp g hg
      have h := pair_exact m g.1 g.2
      rw [this] at h
      simpa using h
  rw [h1, h2, h3]; rfl

/-- the verdict does not depend on anything but the project-relative path string and the rule set
    (in particular not on which other files exist): `checkAll` is a function of exactly those. -/
theorem depends_only_on_relpath (ca : Bool) (m m' : Pat → Bool) (path : Str) (c : Config) (h : ∀ p, m p = m' p) :
    checkAll ca m path c = checkAll ca m' path c := by
  have : m = m' := funext h
  rw [this]

/-- at most one violation per rule family -/
theorem at_most_three (ca : Bool) (m : Pat → Bool) (path : Str) (c : Config) : (checkAll ca m path c).length ≤ 3 := by
  have h1 : (dirPart ca m path c).length ≤ 1 := by
    unfold dirPart checkDirectory
    repeat (first | split | simp)
  have h2 : (gdPart m c).length ≤ 1 := by
    unfold gdPart checkGlobalDeny
    repeat (first | split | simp)
  have h3 : (gpPart m c).length ≤ 1 := by
    unfold gpPart checkGlobalPatterns
    repeat (first | split | simp)
  simp only [checkAll, List.length_append]
  omega

/-- finding F18a (string-prefix matching, the code before the repair): the rule for `src` also governs
    `src2/x.py`; the repaired matcher does not -/
theorem F18a_witness :
    (findRule false "src2/x.py".toList [⟨"src".toList, none, some [0]⟩] none).isSome = true ∧
    (findRule true "src2/x.py".toList [⟨"src".toList, none, some [0]⟩] none).isSome = false ∧
    (findRule true "src/x.py".toList [⟨"src".toList, none, some [0]⟩] none).isSome = true := by decide

/-- non-vacuity: nested rules, the deeper one governs; deny beats allow -/
example : checkAll true (fun p => p == 1) "src/models/a.py".toList
    ⟨some [⟨"src".toList, some [1], none⟩, ⟨"src/models".toList, some [0], some [1]⟩], none, none⟩ = [] ∧
    checkAll true (fun p => p == 1) "src/models/a.py".toList
    ⟨some [⟨"src".toList, none, none⟩, ⟨"src/models".toList, some [1], some [1]⟩], none, none⟩ = [.dirDeny "src/models".toList 1] := by decide

/-- a key written with a trailing slash is as deep as the same key without it (F18b repaired) -/
theorem keyDepth_trailing_slash (k : Str) : keyDepth (k ++ ['/']) = keyDepth k := by
  unfold keyDepth
  simp [List.reverse_append]

example : keyDepth "src/".toList = 1 ∧ keyDepth "src/models".toList = 2 ∧ countParts "src/".toList = 2 := by decide

end ThaiLintModel.C18
