/- C19 — driver glue -/
import ThaiLintModel.Core.J
import ThaiLintModel.C19.Props
namespace ThaiLintModel.C19
open Lean ThaiLintModel

instance : Inhabited Tree := ⟨.node 0 0 .nil⟩

partial def treeOf (j : Json) : Tree :=
  let cs := (J.arrD j "ch").toList.map treeOf
  .node (J.natD j "label" 0) (J.natD j "name" 0) (cs.foldr TreeList.cons .nil)

/-- request: a tree whose nodes carry `label`; `verdicts`: label -> list of rule numbers reported on a node
    with that label (anchor = the node's `name`, used by the harness as the copy index) -/
def handle (j : Json) : Json :=
  let t := treeOf ((j.getObjVal? "tree").toOption.getD Json.null)
  let table : List (Nat × List Nat) := (J.arrD j "verdicts").toList.filterMap fun e => match e with
    | .arr #[l, rs] => some (l.getNat?.toOption.getD 0, (match rs with | .arr a => a.toList.filterMap (fun x => x.getNat?.toOption) | _ => []))
    | _ => none
  let verdict : Tree → List Finding := fun n => match n with
    | .node l nm _ => ((table.find? (·.1 == l)).map (·.2)).getD [] |>.map fun r => ⟨r, nm⟩
  Json.mkObj [("findings", Json.arr ((visit verdict t).map fun f => Json.arr #[toJson f.rule, toJson f.anchor]).toArray)]

end ThaiLintModel.C19
