/-
C19 — documented examples wherever they are embedded.  Executable model (no Mathlib, no proofs) of the
scheme every pattern linter follows: a full walk of the syntax tree in which each node gets a verdict that
depends on that node and its subtree only (`ast.NodeVisitor.generic_visit`, `_walk_tree_recursive`):

    findings(node) = verdict(node) ++ findings(child₁) ++ … ++ findings(childₙ)

An example embedded somewhere is a subtree plugged into a context (a tree with a hole).
-/
namespace ThaiLintModel.C19

mutual
inductive Tree where
  | node (label : Nat) (name : Nat) (children : TreeList)
inductive TreeList where
  | nil
  | cons (t : Tree) (rest : TreeList)
end

def TreeList.append : TreeList → TreeList → TreeList
  | .nil, r => r
  | .cons t l, r => .cons t (TreeList.append l r)

/-- a finding: rule and the node it is anchored on (positions follow the line-shift model of C13) -/
structure Finding where
  rule : Nat
  anchor : Nat
  deriving DecidableEq, Repr

mutual
/-- the walk: own verdict first, then the children in order -/
def visit (verdict : Tree → List Finding) : Tree → List Finding
  | .node l n cs => verdict (.node l n cs) ++ visitList verdict cs
def visitList (verdict : Tree → List Finding) : TreeList → List Finding
  | .nil => []
  | .cons t rest => visit verdict t ++ visitList verdict rest
end

/-- a context: a tree with one hole, given as the path from the root to the hole -/
inductive Ctx where
  | hole
  | node (label : Nat) (name : Nat) (left : TreeList) (inner : Ctx) (right : TreeList)

def plug : Ctx → Tree → Tree
  | .hole, t => t
  | .node l n left inner right, t => .node l n (TreeList.append left (.cons (plug inner t) right))

/-- the nodes on the path to the hole, each with the hole filled by `t` -/
def pathNodes : Ctx → Tree → List Tree
  | .hole, _ => []
  | .node l n left inner right, t => plug (.node l n left inner right) t :: pathNodes inner t

mutual
/-- renaming identifiers (`name` fields) throughout a tree -/
def rename (ρ : Nat → Nat) : Tree → Tree
  | .node l n cs => .node l (ρ n) (renameList ρ cs)
def renameList (ρ : Nat → Nat) : TreeList → TreeList
  | .nil => .nil
  | .cons t rest => .cons (rename ρ t) (renameList ρ rest)
end

/-- `k` copies of an example side by side under one parent, after some leading siblings -/
def copies (t : Tree) : Nat → TreeList
  | 0 => .nil
  | k + 1 => .cons t (copies t k)

/-- the code around the hole reports nothing by itself -/
def quietSiblings (v : Tree → List Finding) : Ctx → Bool
  | .hole => true
  | .node _ _ left inner right => (decide (visitList v left = []) && decide (visitList v right = [])) && quietSiblings v inner

end ThaiLintModel.C19
