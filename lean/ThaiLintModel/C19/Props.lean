import ThaiLintModel.C19.Model
namespace ThaiLintModel.C19

theorem visitList_append (v : Tree → List Finding) : ∀ (a b : TreeList),
    visitList v (TreeList.append a b) = visitList v a ++ visitList v b
  | .nil, b => by simp [TreeList.append, visitList]
  | .cons t rest, b => by simp [TreeList.append, visitList, visitList_append v rest b, List.append_assoc]

/-- **An embedded example keeps all its findings**: wherever the example is plugged in — under any stack
    of enclosing classes, functions and blocks, before and after any siblings — the findings of the whole
    file contain the example's own findings, in order -/
theorem findings_survive_embedding (v : Tree → List Finding) (c : Ctx) (t : Tree) :
    (visit v t).Sublist (visit v (plug c t)) := by
  induction c with
  | hole => exact List.Sublist.refl _
  | node l n left inner right ih =>
    simp only [plug, visit, visitList_append, visitList]
    apply List.Sublist.trans ih
    apply List.Sublist.trans (List.sublist_append_left _ (visitList v right))
    apply List.Sublist.trans (List.sublist_append_right (visitList v left) _)
    exact List.sublist_append_right _ _

/-- **… and nothing else appears when the surroundings are quiet**: if the enclosing nodes and the sibling
    code report nothing themselves, the file's findings are exactly the example's — in particular an
    acceptable example (no findings) stays unreported wherever it is placed -/
theorem findings_exact_in_quiet_context (v : Tree → List Finding) (t : Tree) :
    ∀ (c : Ctx), (∀ p ∈ pathNodes c t, v p = []) → quietSiblings v c = true → visit v (plug c t) = visit v t
  | .hole, _, _ => rfl
  | .node l n left inner right, hq, hs => by
    simp only [quietSiblings, Bool.and_eq_true, decide_eq_true_eq] at hs
    have hself : v (plug (.node l n left inner right) t) = [] := hq _ (by simp [pathNodes])
    have ih := findings_exact_in_quiet_context v t inner (fun p hp => hq p (by simp [pathNodes, hp])) hs.2
    simp only [plug] at hself ⊢
    simp only [visit, hself, visitList_append, visitList, hs.1.1, hs.1.2, ih, List.nil_append, List.append_nil]

/-- an acceptable example (no findings of its own) stays unreported in every quiet context -/
theorem acceptable_stays_unreported (v : Tree → List Finding) (t : Tree) (c : Ctx) (ht : visit v t = [])
    (hq : ∀ p ∈ pathNodes c t, v p = []) (hs : quietSiblings v c = true) : visit v (plug c t) = [] := by
  rw [findings_exact_in_quiet_context v t c hq hs, ht]

/-! ### The example's findings form one contiguous block; embeddings compose -/

/-- what the file reports before the example: the enclosing nodes' own verdicts and the code to the left -/
def before (v : Tree → List Finding) : Ctx → Tree → List Finding
  | .hole, _ => []
  | .node l n left inner right, t => v (plug (.node l n left inner right) t) ++ visitList v left ++ before v inner t

/-- … and after it: the code to the right, innermost first -/
def after (v : Tree → List Finding) : Ctx → List Finding
  | .hole => []
  | .node _ _ _ inner right => after v inner ++ visitList v right

/-- **Exact shape of the report for every context** (quiet or not): the example's findings appear unchanged,
    in order and as one block; everything else is determined by the surroundings -/
theorem findings_contiguous (v : Tree → List Finding) (c : Ctx) (t : Tree) :
    visit v (plug c t) = before v c t ++ visit v t ++ after v c := by
  induction c with
  | hole => simp [plug, before, after]
  | node l n left inner right ih =>
    simp only [plug] at ih ⊢
    simp only [visit, visitList_append, visitList, ih, before, after, plug, List.append_assoc]

/-- the file never reports fewer findings than the example embedded in it -/
theorem embedding_count_ge (v : Tree → List Finding) (c : Ctx) (t : Tree) :
    (visit v t).length ≤ (visit v (plug c t)).length :=
  (findings_survive_embedding v c t).length_le

/-- every single finding of the example is a finding of the file -/
theorem embedded_finding_reported (v : Tree → List Finding) (c : Ctx) (t : Tree) (f : Finding) (hf : f ∈ visit v t) :
    f ∈ visit v (plug c t) :=
  (findings_survive_embedding v c t).subset hf

/-- an example inside a context inside another context: embeddings compose -/
def Ctx.comp : Ctx → Ctx → Ctx
  | .hole, d => d
  | .node l n left inner right, d => .node l n left (Ctx.comp inner d) right

theorem plug_comp (c d : Ctx) (t : Tree) : plug (c.comp d) t = plug c (plug d t) := by
  induction c with
  | hole => rfl
  | node l n left inner right ih => simp [Ctx.comp, plug, ih]

/-- wrapping a file that already embeds the example once more keeps the example's findings -/
theorem findings_survive_nested_embedding (v : Tree → List Finding) (c d : Ctx) (t : Tree) :
    (visit v t).Sublist (visit v (plug c (plug d t))) := by
  rw [← plug_comp]
  exact findings_survive_embedding v (c.comp d) t

/-- **Multiplicity**: `k` copies of an example report `k` times the example's findings -/
theorem copies_report_k_times (v : Tree → List Finding) (t : Tree) (k : Nat) :
    visitList v (copies t k) = (List.replicate k (visit v t)).flatten := by
  induction k with
  | zero => rfl
  | succ k ih => simp [copies, visitList, ih, List.replicate_succ]

/-- **Renaming**: for a verdict that does not look at names, the renamed example reports the same rules on
    the same nodes -/
theorem renaming_invariant (v : Tree → List Finding) (ρ : Nat → Nat) (hblind : ∀ t, v (rename ρ t) = v t) :
    ∀ t, visit v (rename ρ t) = visit v t
  | .node l n cs => by
    have h := hblind (.node l n cs)
    simp only [rename] at h
    simp only [rename, visit, h, renameList_visit v ρ hblind cs]
where
  renameList_visit (v : Tree → List Finding) (ρ : Nat → Nat) (hblind : ∀ t, v (rename ρ t) = v t) :
      ∀ cs, visitList v (renameList ρ cs) = visitList v cs
    | .nil => rfl
    | .cons t rest => by
      simp only [renameList, visitList, renaming_invariant v ρ hblind t, renameList_visit v ρ hblind rest]

/-- what goes wrong when the walk is *not* full (a matched loop whose body is no longer visited) or the
    verdict is *not* a function of the subtree (a `visited` set keyed by name): the theorem's scheme is
    violated — shown on the smallest tree -/
def verdictLoop : Tree → List Finding
  | .node 1 _ _ => [⟨1, 1⟩]      -- label 1 = a loop that matches the pattern
  | _ => []
def visitNoDescent (v : Tree → List Finding) : Tree → List Finding
  | .node l n cs => if (v (.node l n cs)).isEmpty then v (.node l n cs) ++ (match cs with | .cons t _ => visitNoDescent v t | .nil => []) else v (.node l n cs)
theorem partial_walk_loses_nested_example :
    let inner := Tree.node 1 0 .nil
    let outer := Tree.node 1 0 (.cons inner .nil)
    visit verdictLoop outer = [⟨1, 1⟩, ⟨1, 1⟩] ∧ visitNoDescent verdictLoop outer = [⟨1, 1⟩] := by decide

end ThaiLintModel.C19
