/- C20 — driver glue -/
import ThaiLintModel.Core.J
import ThaiLintModel.C20.Props
namespace ThaiLintModel.C20
open Lean ThaiLintModel

def docOf (j : Json) : Option (Doc Str) :=
  match j with
  | .arr a => some (a.toList.map fun e => ((J.strD e "k" "").toList, (J.strD e "v" "").toList))
  | _ => none

def valOf (j : Json) : Val :=
  match J.strD j "t" "" with
  | "bool" => .bool (J.boolD j "v" false)
  | "int" => .int ((J.strD j "v" "0").toInt?.getD 0)
  | "float" => .float (J.strD j "repr" "").toList (match J.strD j "cls" "" with
      | "pos" => .pos | "zero" => .zero | "neg" => .neg | "nan" => .nan | "posInf" => .posInf | _ => .negInf)
  | "str" => .str (J.strD j "v" "").toList
  | _ => .other (J.natD j "id" 0)

def clsName : FCls → String
  | .pos => "pos" | .zero => "zero" | .neg => "neg" | .nan => "nan" | .posInf => "posInf" | .negInf => "negInf"

def valJson : Val → Json
  | .bool b => Json.mkObj [("t", "bool"), ("v", b)]
  | .int z => Json.mkObj [("t", "int"), ("v", toString z)]
  | .float r c => Json.mkObj [("t", "float"), ("repr", String.ofList r), ("cls", clsName c)]
  | .str s => Json.mkObj [("t", "str"), ("v", String.ofList s)]
  | .other i => Json.mkObj [("t", "other"), ("id", i)]

def cfgOf (j : Json) : Option Cfg :=
  match j with
  | .arr a => some (a.toList.map fun e => ((J.strD e "k" "").toList, valOf ((e.getObjVal? "v").toOption.getD Json.null)))
  | _ => none

def cfgJson (c : Option Cfg) : Json :=
  match c with
  | none => Json.null
  | some l => Json.arr (l.map fun kv => Json.mkObj [("k", String.ofList kv.1), ("v", valJson kv.2)]).toArray

def outJson : Out → Json
  | .ok => Json.mkObj [("out", "ok")]
  | .value v => Json.mkObj [("out", "value"), ("v", valJson v)]
  | .rejected => Json.mkObj [("out", "rejected")]
  | .notFound => Json.mkObj [("out", "notFound")]
  | .loadError => Json.mkObj [("out", "loadError")]

def opOf (j : Json) : Op :=
  match J.strD j "op" "" with
  | "set" => .set (J.strD j "k" "").toList (valOf ((j.getObjVal? "v").toOption.getD Json.null))
  | "get" => .get (J.strD j "k" "").toList
  | _ => .reset

def linesOf (j : Json) (k : String) (dflt : List String) : List Line :=
  match j.getObjVal? k with
  | .ok (.arr a) => a.toList.map fun x => (x.getStr?.toOption.getD "").toList
  | _ => dflt.map String.toList

def handle (j : Json) : Json :=
  match J.strD j "op" "" with
  | "extract" =>
    let secs := extractSections (linesOf j "names" Gen.Config.linterSections) (linesOf j "template" Gen.Config.templateLines)
    Json.arr (secs.map fun s => Json.arr #[Json.str (String.ofList s.1), Json.str (String.ofList (joinWith ['\n'] s.2))]).toArray
  | "merge" =>
    let table := (J.arrD j "yaml").toList.map fun e => ((J.strD e "text" "").toList, docOf ((e.getObjVal? "doc").toOption.getD Json.null))
    let yaml : Str → Option (Doc Str) := fun t => (lookup table t).bind id
    let existing := (J.strD j "existing" "").toList
    let names := linesOf j "names" Gen.Config.linterSections
    let tmpl := linesOf j "template" Gen.Config.templateLines
    let repaired := J.boolD j "repaired" true
    -- first tell the harness which texts the parser is needed for (a stub parser lets every guard pass)
    let stub : Str → Option (Doc Str) := fun t => match yaml existing with | some d => some d | none => if t == existing then none else some []
    let cand := fun (r : Bool) => match performMerge r stub names tmpl existing with
      | .written m _ => if (lookup table m).isNone then [m] else []
      | _ => []
    let need := (cand true ++ cand false).eraseDups
    let pre := performMerge false yaml names tmpl existing
    match need with
    | m :: _ => Json.mkObj [("needYaml", String.ofList m)]
    | [] =>
      let render := fun (o : Outcome) => match o with
        | .parseError => Json.mkObj [("outcome", "parseError")]
        | .complete => Json.mkObj [("outcome", "complete")]
        | .refused => Json.mkObj [("outcome", "refused")]
        | .written m added => Json.mkObj [("outcome", "written"), ("content", String.ofList m), ("added", J.ofStrs (added.map String.ofList))]
      Json.mkObj [("new", render (performMerge repaired yaml names tmpl existing)), ("old", render pre)]
  | "config" =>
    let file := cfgOf ((j.getObjVal? "file").toOption.getD Json.null)
    let ops := (J.arrD j "ops").toList.map opOf
    let repaired := J.boolD j "repaired" true
    -- per-step trace: output and file after each command
    let rec go (f : Option Cfg) (l : List Op) (acc : List Json) : List Json :=
      match l with
      | [] => acc.reverse
      | op :: rest =>
        let r := exec repaired f op
        go r.1 rest (Json.mkObj [("out", outJson r.2), ("file", cfgJson r.1)] :: acc)
    Json.mkObj [("steps", Json.arr (go file ops []).toArray), ("usable", decide (file.isNone ∨ validate true (load file) = true)),
                ("specValid", Json.arr (ops.map fun op => match op with | .set k v => Json.bool (specValid (normKey k) v) | _ => Json.null).toArray)]
  | _ => Json.mkObj [("error", "unknown op")]

end ThaiLintModel.C20
