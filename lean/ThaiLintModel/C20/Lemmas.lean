import ThaiLintModel.C20.Model
namespace ThaiLintModel.C20

/-! helper lemmas about ordered dictionaries -/

theorem lookup_upsert {β} (d : List (Str × β)) (k q : Str) (v : β) :
    lookup (upsert d k v) q = if k == q then some v else lookup d q := by
  induction d with
  | nil => simp [upsert, lookup]
  | cons h t ih =>
    obtain ⟨k', v'⟩ := h
    simp only [upsert]
    by_cases hk : (k' == k) = true
    · have hkk : k' = k := by simpa using hk
      subst hkk
      simp only [hk, if_true, lookup]
      by_cases hq : (k' == q) = true <;> simp [hq]
    · simp only [hk, Bool.false_eq_true, if_false, lookup, ih]
      by_cases hq' : (k' == q) = true
      · have : k' = q := by simpa using hq'
        subst this
        have : (k == k') = false := by
          cases h : (k == k') with
          | false => rfl
          | true => have : k = k' := by simpa using h
                    subst this; simp at hk
        simp [this]
      · simp [hq']

def keys {β} (d : List (Str × β)) : List Str := d.map (·.1)

theorem keys_upsert {β} (d : List (Str × β)) (k : Str) (v : β) :
    ∀ x, x ∈ keys (upsert d k v) ↔ x = k ∨ x ∈ keys d := by
  induction d with
  | nil => intro x; simp [upsert, keys]
  | cons h t ih =>
    obtain ⟨k', v'⟩ := h
    intro x
    simp only [upsert]
    by_cases hk : (k' == k) = true
    · have : k' = k := by simpa using hk
      subst this
      simp [keys]
    · simp only [hk, Bool.false_eq_true, if_false]
      have := ih x
      simp only [keys, List.map_cons, List.mem_cons] at this ⊢
      rw [this]
      constructor
      · rintro (h | h | h) <;> simp [h]
      · rintro (h | h | h) <;> simp [h]

theorem nodup_upsert {β} (d : List (Str × β)) (k : Str) (v : β) (h : (keys d).Nodup) : (keys (upsert d k v)).Nodup := by
  induction d with
  | nil => simp [upsert, keys]
  | cons hd t ih =>
    obtain ⟨k', v'⟩ := hd
    simp only [keys, List.map_cons, List.nodup_cons] at h
    simp only [upsert]
    by_cases hk : (k' == k) = true
    · have : k' = k := by simpa using hk
      subst this
      simpa [keys, List.nodup_cons] using h
    · simp only [hk, Bool.false_eq_true, if_false, keys, List.map_cons, List.nodup_cons]
      refine ⟨?_, ih h.2⟩
      intro hmem
      have := (keys_upsert t k v k').mp hmem
      rcases this with h1 | h1
      · subst h1; simp at hk
      · exact h.1 h1

theorem lookup_isSome_iff {β} (d : List (Str × β)) (q : Str) : (lookup d q).isSome = true ↔ q ∈ keys d := by
  induction d with
  | nil => simp [lookup, keys]
  | cons h t ih =>
    obtain ⟨k', v'⟩ := h
    simp only [lookup, keys, List.map_cons, List.mem_cons]
    by_cases hq : (k' == q) = true
    · have : k' = q := by simpa using hq
      simp [hq, this]
    · have hne : ¬ q = k' := by intro h; subst h; simp at hq
      simp only [hq, Bool.false_eq_true, if_false, ih, keys, hne, false_or]

theorem mem_lookup {β} (d : List (Str × β)) (h : (keys d).Nodup) (k : Str) (v : β) (hm : (k, v) ∈ d) : lookup d k = some v := by
  induction d with
  | nil => cases hm
  | cons hd t ih =>
    obtain ⟨k', v'⟩ := hd
    simp only [keys, List.map_cons, List.nodup_cons] at h
    rcases List.mem_cons.mp hm with heq | hm'
    · cases heq; simp [lookup]
    · have hne : (k' == k) = false := by
        cases hh : (k' == k) with
        | false => rfl
        | true =>
          have : k' = k := by simpa using hh
          subst this
          exact absurd (List.mem_map_of_mem (f := (·.1)) hm') h.1
      simp only [lookup, hne, Bool.false_eq_true, if_false]
      exact ih h.2 hm'

theorem lookup_mem {β} (d : List (Str × β)) (k : Str) (v : β) (h : lookup d k = some v) : (k, v) ∈ d := by
  induction d with
  | nil => simp [lookup] at h
  | cons hd t ih =>
    obtain ⟨k', v'⟩ := hd
    simp only [lookup] at h
    by_cases hq : (k' == k) = true
    · have : k' = k := by simpa using hq
      simp only [hq, if_true, Option.some.injEq] at h
      subst this; subst h; simp
    · simp only [hq, Bool.false_eq_true, if_false] at h
      exact List.mem_cons_of_mem _ (ih h)

/-! normalisation -/

def nk (c : Char) : Char := if c == '-' then '_' else c
def ns (c : Char) : Char := if c == '_' then '-' else c
theorem nk_idem (c : Char) : nk (nk c) = nk c := by
  unfold nk
  by_cases h : c = '-'
  · subst h; decide
  · simp [h]
theorem char_norm (x y : Char) : (ns x = ns y) ↔ (nk x = nk y) := by
  unfold ns nk
  by_cases hx1 : x = '-' <;> by_cases hx2 : x = '_' <;> by_cases hy1 : y = '-' <;> by_cases hy2 : y = '_' <;>
    (try subst hx1) <;> (try subst hx2) <;> (try subst hy1) <;> (try subst hy2) <;> simp_all <;> (try constructor) <;> (try intro h) <;> (try subst h) <;> simp_all

theorem normKey_eq (k : Str) : normKey k = k.map nk := rfl
theorem normSection_eq (k : Str) : normSection k = k.map ns := rfl

theorem normKey_idem (k : Str) : normKey (normKey k) = normKey k := by
  simp only [normKey_eq, List.map_map]
  apply List.map_congr_left
  intro c _
  exact nk_idem c

theorem norm_iff (a b : Str) : normSection a = normSection b ↔ normKey a = normKey b := by
  simp only [normKey_eq, normSection_eq]
  induction a generalizing b with
  | nil => cases b <;> simp
  | cons x xs ih =>
    cases b with
    | nil => simp
    | cons y ys => simp only [List.map_cons, List.cons.injEq, ih ys, char_norm]

end ThaiLintModel.C20
