/-
C20 — config tooling.  Executable model (no Mathlib, no proofs) of
  * `init-config` without --force: `extract_linter_sections`, `identify_missing_sections`,
    `merge_config_sections`, `perform_merge` (`src/cli/config_merge.py`) at the level of text, with the
    YAML parser as a parameter;
  * `config set / get / reset` over the file on disk: `load_config`, `validate_config`, `save_config`
    (`src/config.py`), `config_set`, `config_get`, `config_reset` (`src/cli/config.py`).
-/
import ThaiLintModel.Gen.Config
namespace ThaiLintModel.C20

abbrev Str := List Char
abbrev Line := Str

/-! ## Part I — merging missing sections into an existing file -/

def isLowerAscii (c : Char) : Bool := 'a' ≤ c && c ≤ 'z'
def isDigitAscii (c : Char) : Bool := '0' ≤ c && c ≤ '9'

/-- Python's `str.strip()` white space (`str.isspace`) -/
def isPySpace (c : Char) : Bool :=
  c == ' ' || c == '\t' || c == '\n' || c == '\r' || c == '\x0b' || c == '\x0c' || c == '\x1c' || c == '\x1d' || c == '\x1e' || c == '\x1f' ||
  c == '\x85' || c == '\xa0' || c == '\u1680' || (0x2000 ≤ c.toNat && c.toNat ≤ 0x200a) || c == '\u2028' || c == '\u2029' || c == '\u202f' ||
  c == '\u205f' || c == '\u3000'

def rstrip (s : Str) : Str := (s.reverse.dropWhile isPySpace).reverse
def lstrip (s : Str) : Str := s.dropWhile isPySpace

/-- `line.startswith("# ===")` -/
def isSectionHeaderLine (l : Line) : Bool := "# ===".toList.isPrefixOf l

/-- `re.match(r"^([a-z][a-z0-9-]*):$", line)` -/
def sectionKey (l : Line) : Option Str :=
  match l.reverse with
  | ':' :: r =>
    (match r.reverse with
     | c :: rest => if isLowerAscii c && rest.all (fun d => isLowerAscii d || isDigitAscii d || d == '-') then some (c :: rest) else none
     | [] => none)
  | _ => none

def linterSectionName (names : List Str) (l : Line) : Option Str :=
  match sectionKey l with
  | some k => if names.contains k then some k else none
  | none => none

/-- `_is_buffer_line` -/
def isBufferLine (l : Line) : Bool :=
  match lstrip l with
  | [] => true
  | c :: _ => c == '#'

/-- Python dict assignment: keep the position of an existing key -/
def upsert {β} (d : List (Str × β)) (k : Str) (v : β) : List (Str × β) :=
  match d with
  | [] => [(k, v)]
  | (k', v') :: r => if k' == k then (k, v) :: r else (k', v') :: upsert r k v

def lookup {β} (d : List (Str × β)) (k : Str) : Option β :=
  match d with
  | [] => none
  | (k', v) :: r => if k' == k then some v else lookup r k

structure St where
  sections : List (Str × List Line)
  cur : Option Str
  content : List Line
  header : List Line

def saveCur (secs : List (Str × List Line)) (cur : Option Str) (content : List Line) : List (Str × List Line) :=
  match cur with
  | some n => if content.isEmpty then secs else upsert secs n content
  | none => secs

/-- `_process_template_line` -/
def step (names : List Str) (st : St) (l : Line) : St :=
  if isSectionHeaderLine l then
    { sections := saveCur st.sections st.cur st.content, cur := none, content := [], header := [l] }
  else match linterSectionName names l with
    | some n => { sections := saveCur st.sections st.cur st.content, cur := some n, content := st.header ++ [l], header := [] }
    | none =>
      match st.cur with
      | some _ => { st with content := st.content ++ [l] }
      | none => if isBufferLine l then { st with header := st.header ++ [l] } else { st with header := [] }

/-- `extract_linter_sections` on the template's lines -/
def extractSections (names : List Str) (lines : List Line) : List (Str × List Line) :=
  let st := lines.foldl (step names) { sections := [], cur := none, content := [], header := [] }
  saveCur st.sections st.cur st.content

def normSection (k : Str) : Str := k.map fun c => if c == '_' then '-' else c

/-- `identify_missing_sections`; `repaired = false` is the code before the repair (finding F20a), which
    compared the raw spellings -/
def identifyMissing (repaired : Bool) (existingKeys : List Str) (all : List Str) : List Str :=
  if repaired then all.filter fun s => !(existingKeys.any fun k => normSection k == normSection s)
  else all.filter fun s => !existingKeys.contains s

def joinWith (sep : Str) : List Str → Str
  | [] => []
  | [x] => x
  | x :: r => x ++ sep ++ joinWith sep r

/-- index of the first occurrence, `str.find` -/
def findSub (pat : Str) : Str → Nat → Option Nat
  | [], i => if pat.isEmpty then some i else none
  | c :: r, i => if pat.isPrefixOf (c :: r) then some i else findSub pat r (i + 1)

def globalMarker : Str :=
  "# ============================================================================\n# GLOBAL SETTINGS".toList

/-- `merge_config_sections` (sections as their joined text) -/
def mergeText (existing : Str) (missing : List Str) : Str :=
  if missing.isEmpty then existing else
  let text := joinWith ['\n'] missing
  match findSub globalMarker existing 0 with
  | some (p + 1) => existing.take (p + 1) ++ text ++ ['\n', '\n'] ++ existing.drop (p + 1)
  | _ => rstrip existing ++ ['\n', '\n'] ++ text ++ ['\n']

inductive Outcome where
  | parseError          -- existing file is not YAML: exit 1, nothing written
  | complete            -- "already contains all linter sections": nothing written
  | refused             -- merged text would not keep the settings: exit 1, nothing written (repaired code)
  | written (content : Str) (added : List Str)
  deriving Repr

/-- a parsed YAML mapping: top-level keys in document order with opaque values -/
abbrev Doc (V : Type) := List (Str × V)

def keepsSettings {V} [DecidableEq V] (old : Doc V) (new : Option (Doc V)) : Bool :=
  match new with
  | some d => old.all fun kv => lookup d kv.1 == some kv.2
  | none => false

/-- `perform_merge`, for any YAML parser `yaml` -/
def performMerge {V} [DecidableEq V] (repaired : Bool) (yaml : Str → Option (Doc V)) (names : List Str) (template : List Line) (existing : Str) : Outcome :=
  match yaml existing with
  | none => .parseError
  | some doc =>
    let secs := extractSections names template
    let missingNames := identifyMissing repaired (doc.map (·.1)) (secs.map (·.1))
    if missingNames.isEmpty then .complete else
    let missing := missingNames.filterMap fun n => (lookup secs n).map (joinWith ['\n'])
    let merged := mergeText existing missing
    if repaired && !keepsSettings doc (yaml merged) then .refused else .written merged missingNames

/-! ## Part II — `config set / get / reset` -/

inductive FCls where | pos | zero | neg | nan | posInf | negInf
  deriving DecidableEq, Repr

inductive Val where
  | bool (b : Bool)
  | int (z : Int)
  | float (repr : Str) (cls : FCls)
  | str (s : Str)
  | other (id : Nat)            -- lists, mappings, null, dates … never touched by the commands
  deriving DecidableEq, Repr

abbrev Cfg := List (Str × Val)

def normKey (k : Str) : Str := k.map fun c => if c == '-' then '_' else c

/-- `DEFAULT_CONFIG`, regenerated from /repo -/
def defaults : Cfg := Gen.Config.defaultConfig.map fun e =>
  (e.1.toList, match e.2 with | .inl s => Val.str s.toList | .inr z => Val.int z)

/-- `_normalize_config_keys` -/
def normalizeKeys (c : Cfg) : Cfg := c.foldl (fun acc kv => upsert acc (normKey kv.1) kv.2) []

/-- `merge_configs(DEFAULT_CONFIG, user)` (no default is a mapping, so the user's value always wins) -/
def mergeCfg (base over : Cfg) : Cfg := over.foldl (fun acc kv => upsert acc kv.1 kv.2) base

/-- `_load_and_merge_config`; `none` = the file does not exist -/
def load (file : Option Cfg) : Cfg :=
  match file with
  | none => defaults
  | some f => mergeCfg defaults (normalizeKeys f)

def strIn (l : List String) (v : Val) : Bool :=
  match v with
  | .str s => l.any fun x => x.toList == s
  | _ => false

def kLvl : Str := "log_level".toList
def kFmt : Str := "output_format".toList
def kRetries : Str := "max_retries".toList
def kTimeout : Str := "timeout".toList
def kName : Str := "app_name".toList

def lvlChk (o : Option Val) : Bool := match o with | some v => strIn Gen.Config.validLogLevels v | none => true
def fmtChk (o : Option Val) : Bool := match o with | some v => strIn Gen.Config.validOutputFormats v | none => true
def retriesChk (repaired : Bool) (o : Option Val) : Bool :=
  match o with
  | some (.int z) => decide (0 ≤ z)
  | some (.bool _) => !repaired
  | some _ => false
  | none => true
def timeoutChk (repaired : Bool) (o : Option Val) : Bool :=
  match o with
  | some (.int z) => decide (0 < z)
  | some (.float _ .pos) => true
  | some (.float _ .nan) => !repaired
  | some (.float _ .posInf) => !repaired
  | some (.bool b) => !repaired && b
  | some _ => false
  | none => true
def nameChk (o : Option Val) : Bool :=
  match o with
  | some (.str s) => !(lstrip s).isEmpty
  | some _ => false
  | none => true
def reqChk (c : Cfg) : Bool := Gen.Config.requiredKeys.all (fun k => (lookup c k.toList).isSome)

/-- `validate_config`; `repaired = false` is the code before the repair (finding F20c): booleans passed as
    integers, NaN and infinity as positive numbers -/
def validate (repaired : Bool) (c : Cfg) : Bool :=
  reqChk c && lvlChk (lookup c kLvl) && fmtChk (lookup c kFmt) &&
  retriesChk repaired (lookup c kRetries) && timeoutChk repaired (lookup c kTimeout) && nameChk (lookup c kName)

inductive Op where
  | set (key : Str) (v : Val)
  | get (key : Str)
  | reset
  deriving Repr

inductive Out where
  | ok                         -- exit 0
  | value (v : Val)            -- `config get` printed this value
  | rejected                   -- exit 1, validation error
  | notFound                   -- exit 1, key not found
  | loadError                  -- exit 2, the file on disk is not a valid configuration
  deriving DecidableEq, Repr

/-- one command against the file on disk (`none` = no file yet) -/
def exec (repaired : Bool) (file : Option Cfg) : Op → Option Cfg × Out
  | .reset => if validate repaired (load file) || file.isNone then (some defaults, .ok) else (file, .loadError)
  | .get k =>
    if file.isSome && !validate repaired (load file) then (file, .loadError) else
    match lookup (load file) (if repaired then normKey k else k) with
    | some v => (file, .value v)
    | none => (file, .notFound)
  | .set k v =>
    if file.isSome && !validate repaired (load file) then (file, .loadError) else
    let cfg := upsert (load file) (if repaired then normKey k else k) v
    if validate repaired cfg then (some cfg, .ok) else (file, .rejected)

def run (repaired : Bool) : Option Cfg → List Op → Option Cfg × List Out
  | file, [] => (file, [])
  | file, op :: rest =>
    let (f', o) := exec repaired file op
    let (f'', os) := run repaired f' rest
    (f'', o :: os)

/-- the documented meaning of a valid value -/
def specValid (k : Str) (v : Val) : Bool :=
  if k = kLvl then strIn Gen.Config.validLogLevels v
  else if k = kFmt then strIn Gen.Config.validOutputFormats v
  else if k = kRetries then (match v with | .int z => decide (0 ≤ z) | _ => false)
  else if k = kTimeout then (match v with | .int z => decide (0 < z) | .float _ .pos => true | _ => false)
  else if k = kName then (match v with | .str s => !(lstrip s).isEmpty | _ => false)
  else true

end ThaiLintModel.C20
