import ThaiLintModel.C20.Lemmas
namespace ThaiLintModel.C20

/-! ## Part I — `init-config` on an existing file -/

/-- **Nothing is lost, the result is valid YAML** (repaired code, any YAML parser): whenever the merge
    writes the file, the new content parses and every pre-existing top-level setting has its old value. -/
theorem written_keeps_settings {V} [DecidableEq V] (yaml : Str → Option (Doc V)) (names : List Str) (tmpl : List Line) (ex m : Str) (added : List Str)
    (h : performMerge true yaml names tmpl ex = .written m added) :
    ∃ d d', yaml ex = some d ∧ yaml m = some d' ∧ ∀ kv ∈ d, lookup d' kv.1 = some kv.2 := by
  unfold performMerge at h
  cases hy : yaml ex with
  | none => simp [hy] at h
  | some d =>
    simp only [hy] at h
    split at h
    · cases h
    · split at h
      · cases h
      · rename_i hguard
        simp only [Outcome.written.injEq] at h
        obtain ⟨hm, _⟩ := h
        rw [hm] at hguard
        simp only [Bool.true_and, Bool.not_eq_true, Bool.not_eq_false'] at hguard
        have hk : keepsSettings d (yaml m) = true := by
          cases hh : keepsSettings d (yaml m) with
          | true => rfl
          | false => simp [hh] at hguard
        unfold keepsSettings at hk
        cases hd' : yaml m with
        | none => rw [hd'] at hk; simp at hk
        | some d' =>
          rw [hd'] at hk
          refine ⟨d, d', rfl, rfl, ?_⟩
          intro kv hkv
          have := List.all_eq_true.mp hk kv hkv
          simpa using this

/-- the text of the existing file is kept, in order: new text is inserted at one place (before the
    GLOBAL SETTINGS banner) or appended after the last non-blank character -/
theorem merge_keeps_text (ex : Str) (missing : List Str) :
    ∃ pre ins post, mergeText ex missing = pre ++ ins ++ post ∧ (pre ++ post = ex ∨ (post = [] ∧ pre = rstrip ex)) := by
  unfold mergeText
  by_cases hm : missing.isEmpty = true
  · exact ⟨ex, [], [], by simp [hm], Or.inl (by simp)⟩
  · simp only [hm, Bool.false_eq_true, if_false]
    split
    · rename_i p _
      exact ⟨ex.take (p + 1), joinWith ['\n'] missing ++ ['\n', '\n'], ex.drop (p + 1), by simp [List.append_assoc], Or.inl (List.take_append_drop _ _)⟩
    · exact ⟨rstrip ex, ['\n', '\n'] ++ joinWith ['\n'] missing ++ ['\n'], [], by simp [List.append_assoc], Or.inr ⟨rfl, rfl⟩⟩

/-- **Only missing sections are added, none shadows a user section** (repaired code): an added section's
    name differs from every existing key even after hyphen/underscore normalisation -/
theorem added_do_not_shadow (existingKeys all : List Str) :
    ∀ n ∈ identifyMissing true existingKeys all, n ∈ all ∧ ∀ k ∈ existingKeys, normKey k ≠ normKey n := by
  intro n hn
  simp only [identifyMissing, if_true, List.mem_filter, Bool.not_eq_true', List.any_eq_false, beq_iff_eq] at hn
  refine ⟨hn.1, ?_⟩
  intro k hk heq
  exact hn.2 k hk ((norm_iff k n).mpr heq)

/-- finding F20a (before the repair): the user's `magic_numbers:` section did not count, a second
    `magic-numbers:` block of template defaults was appended and won after normalisation -/
theorem F20a_witness :
    identifyMissing false ["magic_numbers".toList, "nesting".toList] ["magic-numbers".toList, "nesting".toList, "srp".toList] = ["magic-numbers".toList, "srp".toList] ∧
    identifyMissing true ["magic_numbers".toList, "nesting".toList] ["magic-numbers".toList, "nesting".toList, "srp".toList] = ["srp".toList] := by
  decide +kernel

/-- **Every pre-existing setting stays in effect**: in the merged file, the only values stored under a
    spelling of an existing key are that key's old value (so the normalised configuration the linters
    see is unchanged for it), provided the merged document's keys are the old ones and the added ones
    and the user had not spelled one section in two ways. -/
theorem settings_stay_in_effect {V} [DecidableEq V] (d d' : Doc V) (added : List Str)
    (hkeep : ∀ kv ∈ d, lookup d' kv.1 = some kv.2)
    (hadded : ∀ n ∈ added, ∀ k ∈ keys d, normKey k ≠ normKey n)
    (hkeys : ∀ k' ∈ keys d', k' ∈ keys d ∨ k' ∈ added)
    (hnd' : (keys d').Nodup) (hnd : (keys d).Nodup)
    (huniq : ∀ k1 ∈ keys d, ∀ k2 ∈ keys d, normKey k1 = normKey k2 → k1 = k2) :
    ∀ kv ∈ d, ∀ kv' ∈ d', normKey kv'.1 = normKey kv.1 → kv'.2 = kv.2 := by
  intro kv hkv kv' hkv' hnorm
  have hk : kv.1 ∈ keys d := List.mem_map_of_mem hkv
  have hk' : kv'.1 ∈ keys d' := List.mem_map_of_mem hkv'
  rcases hkeys _ hk' with h1 | h1
  · have heq : kv'.1 = kv.1 := huniq _ h1 _ hk hnorm
    have l1 := hkeep kv hkv
    have l2 := mem_lookup d' hnd' kv'.1 kv'.2 hkv'
    rw [heq] at l2
    rw [l1] at l2
    exact (Option.some.inj l2).symm
  · exact absurd hnorm.symm (hadded _ h1 _ hk)

/-- **Running it again changes nothing**: once every added section is a key of the merged document, the
    second run finds nothing missing. -/
theorem second_run_complete (dKeys dKeys' all : List Str)
    (hsub : ∀ k ∈ dKeys, k ∈ dKeys') (hadded : ∀ n ∈ identifyMissing true dKeys all, n ∈ dKeys') :
    identifyMissing true dKeys' all = [] := by
  have key : ∀ s ∈ all, (dKeys'.any fun k => normSection k == normSection s) = true := by
    intro s hs
    by_cases hmiss : s ∈ identifyMissing true dKeys all
    · exact List.any_eq_true.mpr ⟨s, hadded s hmiss, by simp⟩
    · have hany : (dKeys.any fun k => normSection k == normSection s) = true := by
        cases hh : (dKeys.any fun k => normSection k == normSection s) with
        | true => rfl
        | false =>
          exfalso; apply hmiss
          simp only [identifyMissing, if_true, List.mem_filter]
          exact ⟨hs, by simp [hh]⟩
      obtain ⟨k, hk, hkn⟩ := List.any_eq_true.mp hany
      exact List.any_eq_true.mpr ⟨k, hsub k hk, hkn⟩
  simp only [identifyMissing, if_true, List.filter_eq_nil_iff]
  intro s hs
  simp [key s hs]

theorem complete_means_untouched {V} [DecidableEq V] (yaml : Str → Option (Doc V)) (names : List Str) (tmpl : List Line) (ex : Str) (d : Doc V)
    (hy : yaml ex = some d) (h : identifyMissing true (d.map (·.1)) ((extractSections names tmpl).map (·.1)) = []) :
    performMerge true yaml names tmpl ex = .complete := by
  unfold performMerge
  simp [hy, h]


/-- **Running init-config again changes nothing**: if the first run wrote `m`, and the parser sees in `m` the
    old keys and the keys of the added sections, the second run answers "already complete" and writes nothing -/
theorem second_run_is_noop {V} [DecidableEq V] (yaml : Str → Option (Doc V)) (names : List Str) (tmpl : List Line) (ex m : Str) (added : List Str)
    (h : performMerge true yaml names tmpl ex = .written m added)
    (hadded : ∀ d', yaml m = some d' → ∀ n ∈ added, n ∈ d'.map (·.1)) :
    performMerge true yaml names tmpl m = .complete := by
  obtain ⟨d, d', hd, hd', hkeep⟩ := written_keeps_settings yaml names tmpl ex m added h
  -- what was added is exactly what was missing
  have hmiss : added = identifyMissing true (d.map (·.1)) ((extractSections names tmpl).map (·.1)) := by
    unfold performMerge at h
    simp only [hd] at h
    split at h
    · cases h
    · split at h
      · cases h
      · simp only [Outcome.written.injEq] at h; exact h.2.symm
  apply complete_means_untouched yaml names tmpl m d' hd'
  apply second_run_complete (d.map (·.1)) (d'.map (·.1))
  · intro k hk
    obtain ⟨kv, hkv, rfl⟩ := List.mem_map.mp hk
    have := hkeep kv hkv
    have hm := lookup_mem d' kv.1 kv.2 this
    exact List.mem_map.mpr ⟨(kv.1, kv.2), hm, rfl⟩
  · intro n hn
    rw [← hmiss] at hn
    exact hadded d' hd' n hn


/-! ### the template regenerated from /repo -/

def names : List Str := Gen.Config.linterSections.map String.toList
def template : List Line := Gen.Config.templateLines.map String.toList

/-- a line that starts a top-level key of a block-style document -/
def topKey (l : Line) : Option Str :=
  match l with
  | c :: _ => if c.isAlphanum || c == '_' then (if l.contains ':' then some (l.takeWhile (· != ':')) else none) else none
  | [] => none

/-- every linter section of the shipped template is extracted, in order, and its text defines exactly
    one top-level key: its own name — so the text inserted for a section adds that key and no other -/
theorem template_sections :
    (extractSections names template).map (·.1) = names ∧
    (extractSections names template).all (fun s => s.2.filterMap topKey == [s.1]) = true ∧
    names.length = 16 := by
  decide +kernel

/-! ## Part II — `config set / get / reset` -/

def WF (c : Cfg) : Prop := (keys c).Nodup ∧ ∀ k ∈ keys c, normKey k = k

theorem wf_defaults : WF defaults := by
  constructor
  · decide +kernel
  · decide +kernel

theorem wf_upsert (c : Cfg) (k : Str) (v : Val) (h : WF c) (hk : normKey k = k) : WF (upsert c k v) := by
  refine ⟨nodup_upsert c k v h.1, ?_⟩
  intro x hx
  rcases (keys_upsert c k v x).mp hx with h1 | h1
  · subst h1; exact hk
  · exact h.2 x h1

theorem wf_foldl_upsert (f : Str → Str) (hf : ∀ k, normKey (f k) = f k) (over : Cfg) :
    ∀ base, WF base → WF (over.foldl (fun acc kv => upsert acc (f kv.1) kv.2) base) := by
  induction over with
  | nil => intro base h; exact h
  | cons kv rest ih => intro base h; exact ih _ (wf_upsert base _ _ h (hf kv.1))

theorem wf_foldl_keys (over : Cfg) (hover : ∀ k ∈ keys over, normKey k = k) :
    ∀ base, WF base → WF (over.foldl (fun acc kv => upsert acc kv.1 kv.2) base) := by
  induction over with
  | nil => intro base h; exact h
  | cons kv rest ih =>
    intro base h
    exact ih (fun k hk => hover k (by simp only [keys, List.map_cons, List.mem_cons]; exact Or.inr hk)) _
      (wf_upsert base _ _ h (hover kv.1 (by simp [keys])))

theorem wf_normalizeKeys (c : Cfg) : WF (normalizeKeys c) :=
  wf_foldl_upsert normKey normKey_idem c [] ⟨by simp [keys], by simp [keys]⟩

theorem lookup_foldl_upsert (f : Str → Str) (q : Str) (over : Cfg) :
    ∀ base, lookup (over.foldl (fun acc kv => upsert acc (f kv.1) kv.2) base) q =
      over.foldl (fun acc kv => if f kv.1 == q then some kv.2 else acc) (lookup base q) := by
  induction over with
  | nil => intro base; rfl
  | cons kv rest ih =>
    intro base
    simp only [List.foldl_cons]
    rw [ih, lookup_upsert]

theorem last_eq_lookup (q : Str) (c : Cfg) (h : (keys c).Nodup) :
    ∀ init, c.foldl (fun acc kv => if kv.1 == q then some kv.2 else acc) init = match lookup c q with | some v => some v | none => init := by
  induction c with
  | nil => intro init; rfl
  | cons kv rest ih =>
    obtain ⟨k, v⟩ := kv
    intro init
    simp only [keys, List.map_cons, List.nodup_cons] at h
    simp only [List.foldl_cons, lookup]
    rw [ih h.2]
    by_cases hk : (k == q) = true
    · have hkq : k = q := by simpa using hk
      have hnone : lookup rest q = none := by
        cases hl : lookup rest q with
        | none => rfl
        | some v' =>
          have : q ∈ keys rest := (lookup_isSome_iff rest q).mp (by simp [hl])
          exact absurd (hkq ▸ this) h.1
      simp [hk, hnone]
    · simp [hk]

/-- a well-formed file loads as itself laid over the defaults -/
theorem lookup_load_some (c : Cfg) (h : WF c) (q : Str) :
    lookup (load (some c)) q = match lookup c q with | some v => some v | none => lookup defaults q := by
  simp only [load, mergeCfg]
  have e1 := lookup_foldl_upsert id q (normalizeKeys c) defaults
  simp only [id] at e1
  rw [e1, last_eq_lookup q _ (wf_normalizeKeys c).1]
  have e2 : lookup (normalizeKeys c) q = lookup c q := by
    have := lookup_foldl_upsert normKey q c []
    simp only [normalizeKeys]
    rw [this]
    have hcongr : ∀ (l : Cfg) (init : Option Val), (∀ k ∈ keys l, normKey k = k) →
        l.foldl (fun acc kv => if normKey kv.1 == q then some kv.2 else acc) init = l.foldl (fun acc kv => if kv.1 == q then some kv.2 else acc) init := by
      intro l
      induction l with
      | nil => intros; rfl
      | cons kv rest ih =>
        intro init hl
        simp only [List.foldl_cons]
        rw [hl kv.1 (by simp [keys])]
        exact ih _ (fun k hk => hl k (by simp only [keys, List.map_cons, List.mem_cons]; exact Or.inr hk))
    rw [hcongr c _ h.2, last_eq_lookup q c h.1]
    simp [lookup]
    cases lookup c q <;> rfl
  rw [e2]

theorem wf_load (file : Option Cfg) : WF (load file) := by
  cases file with
  | none => exact wf_defaults
  | some c =>
    simp only [load, mergeCfg]
    exact wf_foldl_keys (normalizeKeys c) (wf_normalizeKeys c).2 defaults wf_defaults

theorem validate_ext (r : Bool) (a b : Cfg) (h : ∀ q, lookup a q = lookup b q) : validate r a = validate r b := by
  unfold validate reqChk
  simp only [h]

theorem fold_keeps_some (q : Str) (f : Str → Str) (over : Cfg) :
    ∀ init : Option Val, init.isSome = true → (over.foldl (fun acc kv => if f kv.1 == q then some kv.2 else acc) init).isSome = true := by
  induction over with
  | nil => intro init h; exact h
  | cons kv rest ih =>
    intro init h
    simp only [List.foldl_cons]
    apply ih
    by_cases hk : (f kv.1 == q) = true <;> simp [hk, h]

theorem defaults_in_load (file : Option Cfg) (q : Str) (h : (lookup defaults q).isSome = true) : (lookup (load file) q).isSome = true := by
  cases file with
  | none => exact h
  | some c =>
    simp only [load, mergeCfg]
    have := lookup_foldl_upsert id q (normalizeKeys c) defaults
    simp only [id] at this
    rw [this]
    exact fold_keeps_some q id _ _ h

/-- the file written by an accepted `set` loads back as exactly what was written -/
theorem load_saved (file : Option Cfg) (k : Str) (v : Val) (hk : normKey k = k) (q : Str) :
    lookup (load (some (upsert (load file) k v))) q = lookup (upsert (load file) k v) q := by
  have hwf := wf_upsert (load file) k v (wf_load file) hk
  rw [lookup_load_some _ hwf]
  cases hl : lookup (upsert (load file) k v) q with
  | some v' => rfl
  | none =>
    simp only
    cases hd : lookup defaults q with
    | none => rfl
    | some dv =>
      exfalso
      have h1 := defaults_in_load file q (by simp [hd])
      have h2 : q ∈ keys (upsert (load file) k v) := (keys_upsert _ _ _ _).mpr (Or.inr ((lookup_isSome_iff _ _).mp h1))
      have h3 := (lookup_isSome_iff _ _).mpr h2
      simp [hl] at h3

/-- a file is usable when it is absent or loads as a valid configuration -/
def Usable (file : Option Cfg) : Prop := file = none ∨ validate true (load file) = true

theorem usable_guard (file : Option Cfg) (h : Usable file) : (file.isSome && !validate true (load file)) = false := by
  rcases h with h | h
  · subst h; rfl
  · simp [h]

theorem exec_set (r : Bool) (file : Option Cfg) (k : Str) (v : Val) :
    exec r file (.set k v) =
      if file.isSome && !validate r (load file) then (file, .loadError) else
      if validate r (upsert (load file) (if r then normKey k else k) v) then (some (upsert (load file) (if r then normKey k else k) v), .ok) else (file, .rejected) := rfl

theorem exec_get (r : Bool) (file : Option Cfg) (k : Str) :
    exec r file (.get k) =
      if file.isSome && !validate r (load file) then (file, .loadError) else
      match lookup (load file) (if r then normKey k else k) with
      | some v => (file, .value v)
      | none => (file, .notFound) := rfl

/-- **A rejected value leaves the file unchanged** (any file, any key, any value) -/
theorem set_rejected_unchanged (r : Bool) (file : Option Cfg) (k : Str) (v : Val) :
    (exec r file (.set k v)).2 ≠ .ok → (exec r file (.set k v)).1 = file := by
  rw [exec_set]
  by_cases hg : (file.isSome && !validate r (load file)) = true
  · simp only [hg, if_true]; intro _; trivial
  · simp only [hg, Bool.false_eq_true, if_false]
    by_cases hv : validate r (upsert (load file) (if r = true then normKey k else k) v) = true
    · simp only [hv, if_true]; intro h; exact absurd rfl h
    · simp only [hv, Bool.false_eq_true, if_false]; intro _; trivial

theorem set_ok_inv (file f' : Option Cfg) (k : Str) (v : Val) (h : exec true file (.set k v) = (f', .ok)) :
    (file.isSome && !validate true (load file)) = false ∧ validate true (upsert (load file) (normKey k) v) = true ∧
    f' = some (upsert (load file) (normKey k) v) := by
  rw [exec_set] at h
  simp only [if_true] at h
  split at h
  · cases h
  · rename_i hg
    split at h
    · rename_i hval
      simp only [Prod.mk.injEq, and_true] at h
      refine ⟨by simpa using hg, hval, h.symm⟩
    · cases h

/-- **Every accepted value is returned unchanged by `config get`** after the save/load round trip
    (repaired code; any file, any key spelling) -/
theorem set_then_get (file f' : Option Cfg) (k : Str) (v : Val)
    (h : exec true file (.set k v) = (f', .ok)) : exec true f' (.get k) = (f', .value v) := by
  obtain ⟨_, hval, hf⟩ := set_ok_inv file f' k v h
  subst hf
  have hext := load_saved file (normKey k) v (normKey_idem k)
  have hv : validate true (load (some (upsert (load file) (normKey k) v))) = true := by
    rw [validate_ext true _ _ hext]; exact hval
  rw [exec_get]
  simp only [Option.isSome_some, hv, Bool.not_true, Bool.and_false, Bool.false_eq_true, if_false, if_true]
  rw [hext, lookup_upsert]
  simp

/-- … and no other key is disturbed -/
theorem set_preserves_others (file f' : Option Cfg) (k k2 : Str) (v : Val)
    (h : exec true file (.set k v) = (f', .ok)) (hne : normKey k2 ≠ normKey k) :
    (exec true f' (.get k2)).2 = (exec true file (.get k2)).2 := by
  obtain ⟨hg, hval, hf⟩ := set_ok_inv file f' k v h
  subst hf
  have hext := load_saved file (normKey k) v (normKey_idem k)
  have hv : validate true (load (some (upsert (load file) (normKey k) v))) = true := by
    rw [validate_ext true _ _ hext]; exact hval
  rw [exec_get, exec_get]
  simp only [Option.isSome_some, hv, Bool.not_true, Bool.and_false, Bool.false_eq_true, if_false, if_true, hg]
  rw [hext, lookup_upsert]
  have : (normKey k == normKey k2) = false := by
    cases hh : (normKey k == normKey k2) with
    | false => rfl
    | true => exact absurd (by simpa using hh : normKey k = normKey k2).symm hne
  simp only [this, Bool.false_eq_true, if_false]
  cases lookup (load file) (normKey k2) <;> rfl

theorem chk_upsert (L : Cfg) (k q : Str) (v : Val) (chk : Option Val → Bool) :
    chk (lookup (upsert L k v) q) = if k = q then chk (some v) else chk (lookup L q) := by
  rw [lookup_upsert]
  by_cases h : k = q
  · subst h; simp
  · have : (k == q) = false := by simpa using h
    simp [this, h]

theorem req_upsert (L : Cfg) (k : Str) (v : Val) (h : reqChk L = true) : reqChk (upsert L k v) = true := by
  unfold reqChk at *
  rw [List.all_eq_true] at *
  intro x hx
  have := h x hx
  rw [lookup_upsert]
  split
  · rfl
  · exact this

theorem keys_distinct :
    kLvl ≠ kFmt ∧ kLvl ≠ kRetries ∧ kLvl ≠ kTimeout ∧ kLvl ≠ kName ∧ kFmt ≠ kRetries ∧ kFmt ≠ kTimeout ∧ kFmt ≠ kName ∧
    kRetries ≠ kTimeout ∧ kRetries ≠ kName ∧ kTimeout ≠ kName := by decide +kernel

theorem validate_upsert (L : Cfg) (k' : Str) (v : Val) (hL : validate true L = true) :
    validate true (upsert L k' v) = specValid k' v := by
  obtain ⟨d1, d2, d3, d4, d5, d6, d7, d8, d9, d10⟩ := keys_distinct
  unfold validate at hL ⊢
  simp only [Bool.and_eq_true] at hL
  obtain ⟨⟨⟨⟨⟨h1, h2⟩, h3⟩, h4⟩, h5⟩, h6⟩ := hL
  rw [req_upsert L k' v h1]
  simp only [chk_upsert, Bool.true_and]
  unfold specValid
  by_cases c1 : k' = kLvl
  · subst c1
    simp only [if_true, if_neg d1, if_neg d2, if_neg d3, if_neg d4, h3, h4, h5, h6, Bool.and_true, lvlChk]
  · by_cases c2 : k' = kFmt
    · subst c2
      simp only [if_true, if_neg c1, if_neg d5, if_neg d6, if_neg d7, h2, h4, h5, h6, Bool.and_true, Bool.true_and, fmtChk]
    · by_cases c3 : k' = kRetries
      · subst c3
        simp only [if_true, if_neg c1, if_neg c2, if_neg d8, if_neg d9, h2, h3, h5, h6, Bool.and_true, Bool.true_and]
        cases v <;> simp [retriesChk]
      · by_cases c4 : k' = kTimeout
        · subst c4
          simp only [if_true, if_neg c1, if_neg c2, if_neg c3, if_neg d10, h2, h3, h4, h6, Bool.and_true, Bool.true_and]
          cases v with
          | float r c => cases c <;> simp [timeoutChk]
          | _ => simp [timeoutChk]
        · by_cases c5 : k' = kName
          · subst c5
            simp only [if_true, if_neg c1, if_neg c2, if_neg c3, if_neg c4, h2, h3, h4, h5, Bool.and_true, Bool.true_and]
            cases v <;> simp [nameChk]
          · simp only [if_neg c1, if_neg c2, if_neg c3, if_neg c4, if_neg c5, h2, h3, h4, h5, h6, Bool.and_true]

theorem usable_loads_valid (file : Option Cfg) (hu : Usable file) : validate true (load file) = true := by
  rcases hu with h | h
  · subst h; decide +kernel
  · exact h

/-- **Only validated values are written**: on a usable file, `config set` accepts a value exactly when
    it is valid for its (normalised) key in the documented sense -/
theorem accepted_iff_valid (file : Option Cfg) (k : Str) (v : Val) (hu : Usable file) :
    (exec true file (.set k v)).2 = .ok ↔ specValid (normKey k) v = true := by
  rw [exec_set]
  simp only [usable_guard file hu, Bool.false_eq_true, if_false, if_true]
  rw [validate_upsert _ _ _ (usable_loads_valid file hu)]
  cases specValid (normKey k) v <;> simp

/-- **The file on disk stays usable under every sequence of commands**, and no command ever fails to
    load it: induction over the command sequence -/
theorem exec_keeps_usable (file : Option Cfg) (op : Op) (hu : Usable file) :
    Usable (exec true file op).1 ∧ (exec true file op).2 ≠ .loadError := by
  cases op with
  | reset =>
    simp only [exec, usable_loads_valid file hu, Bool.true_or, if_true]
    exact ⟨Or.inr (by decide +kernel), by simp⟩
  | get k =>
    rw [exec_get]
    simp only [usable_guard file hu, Bool.false_eq_true, if_false]
    simp only [if_true]
    cases hl : lookup (load file) (normKey k) <;> exact ⟨hu, by simp⟩
  | set k v =>
    rw [exec_set]
    simp only [usable_guard file hu, Bool.false_eq_true, if_false, if_true]
    split
    · rename_i hval
      refine ⟨Or.inr ?_, by simp⟩
      rw [validate_ext true _ _ (load_saved file (normKey k) v (normKey_idem k))]
      exact hval
    · exact ⟨hu, by simp⟩

theorem run_keeps_usable (ops : List Op) : ∀ file, Usable file →
    Usable (run true file ops).1 ∧ Out.loadError ∉ (run true file ops).2 := by
  induction ops with
  | nil => intro file hu; exact ⟨hu, by simp [run]⟩
  | cons op rest ih =>
    intro file hu
    obtain ⟨h1, h2⟩ := exec_keeps_usable file op hu
    obtain ⟨h3, h4⟩ := ih _ h1
    simp only [run]
    refine ⟨h3, ?_⟩
    simp only [List.mem_cons, not_or]
    exact ⟨fun h => h2 h.symm, h4⟩

/-- `config reset` restores the defaults, whatever was there -/
theorem reset_restores_defaults (file : Option Cfg) (hu : Usable file) (q : Str) :
    (exec true file .reset).1 = some defaults ∧ lookup (load (some defaults)) q = lookup defaults q := by
  constructor
  · simp only [exec, usable_loads_valid file hu, Bool.true_or, if_true]
  · rw [lookup_load_some _ wf_defaults]; cases lookup defaults q <;> rfl

/-- finding F20c (before the repair): booleans and NaN passed the numeric validators -/
theorem F20c_witness :
    (exec false none (.set kRetries (.bool true))).2 = .ok ∧ (exec true none (.set kRetries (.bool true))).2 = .rejected ∧
    (exec false none (.set kTimeout (.float "nan".toList .nan))).2 = .ok ∧ (exec true none (.set kTimeout (.float "nan".toList .nan))).2 = .rejected ∧
    specValid kRetries (.bool true) = false ∧ specValid kTimeout (.float "nan".toList .nan) = false := by decide +kernel

/-- finding F20d (before the repair): a value stored under a hyphenated key could not be read back -/
theorem F20d_witness :
    (run false none [.set "my-key".toList (.int 5), .get "my-key".toList]).2 = [.ok, .notFound] ∧
    (run true none [.set "my-key".toList (.int 5), .get "my-key".toList]).2 = [.ok, .value (.int 5)] := by decide +kernel

/-- non-vacuity: a user file with hyphenated section keys is usable, commands behave as stated -/
example : Usable (some [("magic-numbers".toList, .other 1), ("log_level".toList, .str "DEBUG".toList)]) := Or.inr (by decide +kernel)
example : (run true (some [("magic-numbers".toList, .other 1), ("log_level".toList, .str "DEBUG".toList)])
    [.set kTimeout (.int 0), .set kTimeout (.float "2.5".toList .pos), .get kTimeout, .get "magic_numbers".toList, .get kLvl]).2 =
    [.rejected, .ok, .value (.float "2.5".toList .pos), .value (.other 1), .value (.str "DEBUG".toList)] := by decide +kernel

end ThaiLintModel.C20
