/-
`fnmatch.fnmatch` on POSIX (no case folding), restricted to patterns without `[`:
`*` matches any run of characters (including `/`), `?` any single character, everything else
itself; the whole string must match.  Structural recursion on the pattern, so the kernel can
evaluate it.
-/
namespace ThaiLintModel

/-- `f` holds for some suffix of `s` -/
def anySuffix (f : List Char → Bool) : List Char → Bool
  | [] => f []
  | c :: t => f (c :: t) || anySuffix f t

def glob : List Char → List Char → Bool
  | [], s => s.isEmpty
  | '*' :: p, s => anySuffix (fun t => glob p t) s
  | '?' :: p, s => match s with
      | [] => false
      | _ :: t => glob p t
  | c :: p, s => match s with
      | [] => false
      | d :: t => c == d && glob p t

/-- characters that `fnmatch` treats specially -/
def isGlobChar (c : Char) : Bool := c == '*' || c == '?' || c == '['

def literal (p : List Char) : Bool := p.all (fun c => !isGlobChar c)

end ThaiLintModel
