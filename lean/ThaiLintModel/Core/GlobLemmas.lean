import ThaiLintModel.Core.Glob
namespace ThaiLintModel

theorem anySuffix_iff (f : List Char → Bool) (s : List Char) :
    anySuffix f s = true ↔ ∃ pre t, s = pre ++ t ∧ f t = true := by
  induction s with
  | nil =>
    simp only [anySuffix]
    constructor
    · intro h; exact ⟨[], [], rfl, h⟩
    · rintro ⟨pre, t, h, ht⟩
      cases pre with
      | cons _ _ => simp at h
      | nil =>
        cases t with
        | cons _ _ => simp at h
        | nil => exact ht
  | cons c r ih =>
    simp only [anySuffix, Bool.or_eq_true, ih]
    constructor
    · rintro (h | ⟨pre, t, rfl, h⟩)
      · exact ⟨[], c :: r, rfl, h⟩
      · exact ⟨c :: pre, t, rfl, h⟩
    · rintro ⟨pre, t, h, ht⟩
      cases pre with
      | nil => left; simp at h; subst h; exact ht
      | cons d pre =>
        right
        simp at h
        exact ⟨pre, t, h.2, ht⟩

theorem glob_nil (s : List Char) : glob [] s = s.isEmpty := by simp [glob]

theorem glob_star (p s : List Char) : glob ('*' :: p) s = anySuffix (fun t => glob p t) s := by
  simp [glob]

theorem glob_lit_cons (c : Char) (p s : List Char) (hc : isGlobChar c = false) :
    glob (c :: p) s = match s with
      | [] => false
      | d :: t => c == d && glob p t := by
  simp [isGlobChar] at hc
  rw [glob.eq_def]
  split
  · simp_all
  · simp_all
  · simp_all
  · rename_i h; simp at h; obtain ⟨rfl, rfl⟩ := h; rfl

/-- a literal prefix of the pattern must be a prefix of the string -/
theorem glob_literal_append (l p s : List Char) (hl : literal l = true) :
    glob (l ++ p) s = true ↔ ∃ t, s = l ++ t ∧ glob p t = true := by
  induction l generalizing s with
  | nil => simp
  | cons c l ih =>
    simp [literal] at hl
    have hc : isGlobChar c = false := by simpa using hl.1
    have hl' : literal l = true := by simpa [literal] using hl.2
    rw [List.cons_append, glob_lit_cons c _ s hc]
    cases s with
    | nil => simp
    | cons d t =>
      simp only [Bool.and_eq_true, beq_iff_eq, ih t hl']
      constructor
      · rintro ⟨rfl, u, rfl, hu⟩; exact ⟨u, rfl, hu⟩
      · rintro ⟨u, hu, hg⟩
        simp at hu
        exact ⟨hu.1.symm, u, hu.2, hg⟩

theorem glob_literal (l s : List Char) (hl : literal l = true) : glob l s = true ↔ s = l := by
  have := glob_literal_append l [] s hl
  simp [glob_nil] at this
  simpa using this

theorem glob_star_only (s : List Char) : glob ['*'] s = true := by
  rw [glob_star, anySuffix_iff]
  exact ⟨s, [], by simp, by simp [glob]⟩

/-- `*e` : the string ends with `e` -/
theorem glob_star_literal (e s : List Char) (he : literal e = true) :
    glob ('*' :: e) s = true ↔ e <:+ s := by
  rw [glob_star, anySuffix_iff]
  constructor
  · rintro ⟨pre, t, rfl, ht⟩
    rw [glob_literal e t he] at ht
    subst ht
    exact ⟨pre, rfl⟩
  · rintro ⟨pre, rfl⟩
    exact ⟨pre, e, rfl, (glob_literal e e he).2 rfl⟩

/-- `n*` : the string starts with `n` -/
theorem glob_literal_star (n s : List Char) (hn : literal n = true) :
    glob (n ++ ['*']) s = true ↔ n <+: s := by
  rw [glob_literal_append n ['*'] s hn]
  constructor
  · rintro ⟨t, rfl, _⟩; exact ⟨t, rfl⟩
  · rintro ⟨t, rfl⟩; exact ⟨t, rfl, glob_star_only t⟩

/-- `**n*` : the string contains `n` -/
theorem glob_star_star_literal_star (n s : List Char) (hn : literal n = true) :
    glob ('*' :: '*' :: (n ++ ['*'])) s = true ↔ n <:+: s := by
  rw [glob_star, anySuffix_iff]
  constructor
  · rintro ⟨pre, t, rfl, ht⟩
    rw [glob_star, anySuffix_iff] at ht
    obtain ⟨pre2, u, rfl, hu⟩ := ht
    rw [glob_literal_star n u hn] at hu
    obtain ⟨v, rfl⟩ := hu
    exact ⟨pre ++ pre2, v, by simp⟩
  · rintro ⟨a, b, rfl⟩
    refine ⟨a, n ++ b, by simp, ?_⟩
    rw [glob_star, anySuffix_iff]
    exact ⟨[], n ++ b, rfl, (glob_literal_star n _ hn).2 ⟨b, rfl⟩⟩

end ThaiLintModel
