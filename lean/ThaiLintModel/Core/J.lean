/-
JSON helpers for the line-protocol driver (not part of any proof).
-/
import Lean.Data.Json
namespace ThaiLintModel.J
open Lean

abbrev R := Except String

def str (j : Json) (k : String) : R String := j.getObjValAs? String k
def nat (j : Json) (k : String) : R Nat := j.getObjValAs? Nat k
def int (j : Json) (k : String) : R Int := j.getObjValAs? Int k
def bool (j : Json) (k : String) : R Bool := j.getObjValAs? Bool k
def arr (j : Json) (k : String) : R (Array Json) := j.getObjValAs? (Array Json) k
def obj (j : Json) (k : String) : R Json := j.getObjVal? k
def strD (j : Json) (k : String) (d : String) : String := (str j k).toOption.getD d
def natD (j : Json) (k : String) (d : Nat) : Nat := (nat j k).toOption.getD d
def boolD (j : Json) (k : String) (d : Bool) : Bool := (bool j k).toOption.getD d
def arrD (j : Json) (k : String) : Array Json := (arr j k).toOption.getD #[]
def strs (j : Json) (k : String) : R (List String) := do
  let a ← arr j k
  a.toList.mapM (fun x => x.getStr?)
def strsD (j : Json) (k : String) : List String := (strs j k).toOption.getD []
def nats (j : Json) (k : String) : R (List Nat) := do
  let a ← arr j k
  a.toList.mapM (fun x => x.getNat?)

def ofStrs (l : List String) : Json := Json.arr (l.map Json.str).toArray
def ofNats (l : List Nat) : Json := Json.arr (l.map (fun (n : Nat) => toJson n)).toArray
def ofList {α} (f : α → Json) (l : List α) : Json := Json.arr (l.map f).toArray

end ThaiLintModel.J
