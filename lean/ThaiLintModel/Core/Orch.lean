/-
The orchestrator as a state machine (`src/orchestrator/core.py`, `src/api.py`), parametric in what
the rule plug-ins do.  `F` = a file (path together with its current content), `V` = a violation,
`E` = a piece of cross-file evidence (a DRY code block row, a stringly-typed pattern, …).

  perFile  f : violations the rules return from `check()` for file `f`
  collect  f : evidence `check()` leaves in the cross-file stores for file `f`
  finalize es: violations `finalize()` computes from the evidence gathered so far

No Mathlib, no proofs here.
-/
namespace ThaiLintModel.Orch

structure Rules (F V E : Type) where
  perFile : F → List V
  collect : F → List E
  finalize : List E → List V

variable {F V E : Type}

/-- state of one Orchestrator object: evidence sitting in its rules' cross-file stores -/
structure St (E : Type) where
  store : List E := []

/-- how `finalize()` leaves the stores: DRY keeps its rows, stringly-typed clears them
    (`keep = true` models the code as it is for DRY) -/
structure Policy where
  keepAfterFinalize : Bool

/-- `lint_file` : run every rule's `check` (no finalize) -/
def lintFile (R : Rules F V E) (s : St E) (f : F) : St E × List V :=
  ({ store := s.store ++ R.collect f }, R.perFile f)

/-- the `for file_path in file_paths: violations.extend(self.lint_file(file_path))` loop -/
def lintLoop (R : Rules F V E) (s : St E) : List F → St E × List V
  | [] => (s, [])
  | f :: fs =>
    let (s1, v1) := lintFile R s f
    let (s2, v2) := lintLoop R s1 fs
    (s2, v1 ++ v2)

/-- `lint_files` / `lint_directory` : loop, then `finalize()` on every rule -/
def lintFiles (R : Rules F V E) (P : Policy) (s : St E) (fs : List F) : St E × List V :=
  let (s1, v) := lintLoop R s fs
  let fin := R.finalize s1.store
  ((if P.keepAfterFinalize then s1 else { store := [] }), v ++ fin)

/-- a fresh object -/
def fresh : St E := { store := [] }

/-- `_lint_file_worker` : a *fresh* Orchestrator per file; its evidence dies with the worker -/
def worker (R : Rules F V E) (f : F) : List V := (lintFile R fresh f).2

/-- `lint_files_parallel(file_paths, max_workers)`; `done` is the order in which the futures complete
    (`as_completed`), a rearrangement of `fs` -/
def lintFilesParallel (R : Rules F V E) (P : Policy) (s : St E) (workers : Nat) (fs done : List F) : St E × List V :=
  if fs.isEmpty then (s, [])
  else if fs.length < workers * 2 then lintFiles R P s fs        -- sequential fallback
  else
    let v := done.flatMap (worker R)
    -- `_collect_cross_file_evidence`: the parent runs the collecting phase of the cross-file rules over
    -- every file itself (what the workers gathered died with them), then finalizes
    let s1 : St E := { store := s.store ++ fs.flatMap R.collect }
    let fin := R.finalize s1.store
    ((if P.keepAfterFinalize then s1 else { store := [] }), v ++ fin)

/-- the pooled branch as it was before fix b158f57 (finding F07a): the parent finalized stores that saw no file -/
def lintFilesParallelOld (R : Rules F V E) (P : Policy) (s : St E) (workers : Nat) (fs done : List F) : St E × List V :=
  if fs.isEmpty then (s, [])
  else if fs.length < workers * 2 then lintFiles R P s fs
  else
    let v := done.flatMap (worker R)
    let fin := R.finalize s.store
    ((if P.keepAfterFinalize then s else { store := [] }), v ++ fin)

/-- `effective_workers = max_workers or min(DEFAULT_MAX_WORKERS, cpu_count)` -/
def effectiveWorkers (maxWorkers : Option Nat) (dflt cpu : Nat) : Nat :=
  match maxWorkers with
  | some k => if k == 0 then min dflt cpu else k
  | none => min dflt cpu

/-- process exit status of a linter command that ran: `sys.exit(1 if violations else 0)` -/
def exitCode (vs : List V) : Nat := if vs.isEmpty then 0 else 1

end ThaiLintModel.Orch
