/-
Generic rose trees shaped like tree-sitter / CPython `ast` parse trees, written as an explicit
mutual inductive (node / child list) so that structural recursion and mutual induction are direct.
No Mathlib, no proofs here: this file is part of the executable model.
-/
namespace ThaiLintModel

mutual
  /-- A parse-tree node: its grammar type and its children, in source order
      (anonymous tokens included, exactly as `node.children` yields them). -/
  inductive TS where
    | node (ty : String) (kids : TSL)
  inductive TSL where
    | nil
    | cons (h : TS) (t : TSL)
end

namespace TSL
def ofList : List TS → TSL
  | [] => .nil
  | h :: t => .cons h (ofList t)
def append : TSL → TSL → TSL
  | .nil, b => b
  | .cons h t, b => .cons h (append t b)
instance : Append TSL := ⟨append⟩
@[simp] theorem nil_append (b : TSL) : (TSL.nil ++ b) = b := rfl
@[simp] theorem cons_append (h : TS) (t b : TSL) : (TSL.cons h t ++ b) = TSL.cons h (t ++ b) := rfl
end TSL

/-- leaf (token or childless named node) -/
def TS.leaf (ty : String) : TS := .node ty .nil

mutual
  def TS.toList : TS → List String
    | .node ty kids => ty :: TSL.toList kids
  def TSL.toList : TSL → List String
    | .nil => []
    | .cons h t => TS.toList h ++ TSL.toList t
end

mutual
  /-- s-expression rendering used by the correspondence check to compare parse shapes -/
  def TS.sexp : TS → String
    | .node ty .nil => ty
    | .node ty kids => "(" ++ ty ++ TSL.sexp kids ++ ")"
  def TSL.sexp : TSL → String
    | .nil => ""
    | .cons h t => " " ++ TS.sexp h ++ TSL.sexp t
end

end ThaiLintModel
